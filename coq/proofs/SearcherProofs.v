(* SearcherProofs.v — lemmas about model/Searcher.v (C06, C16). *)
From Verif Require Import model.Base model.Searcher.
From Coq Require Import Permutation.

Lemma NoDup_app_disjoint {A} (l1 l2 : list A) :
  NoDup l1 -> NoDup l2 -> (forall x, In x l1 -> ~ In x l2) -> NoDup (l1 ++ l2).
Proof.
  induction l1 as [|y l1 IH]; simpl; intros H1 H2 Hd; [assumption|].
  inversion H1 as [|? ? Hy Hl]; subst. constructor.
  - intro Hin. apply in_app_or in Hin as [Hin|Hin]; [contradiction|]. apply (Hd y); auto.
  - apply IH; auto.
Qed.

Section Proofs.
Variable C : Type.
Variable M : Type.
Variable ceqb : C -> C -> bool.
Variable meqb : M -> M -> bool.
Variable ms : C -> M.
Hypothesis ceqb_eq : forall a b, ceqb a b = true <-> a = b.
Hypothesis meqb_eq : forall a b, meqb a b = true <-> a = b.

Notation excl_contains := (excl_contains C M meqb ms).
Notation excl_add := (excl_add C M meqb ms).
Notation rs_state := (rs_state C M).
Notation rs_get_config := (rs_get_config C M meqb ms).
Notation rs_step := (rs_step C M meqb ms).
Notation rs_run := (rs_run C M meqb ms).
Notation suggested := (suggested C).

(* ---------------- membership ------------------------------------------ *)
Lemma memb_In {A} (eqb : A -> A -> bool) (H : forall a b, eqb a b = true <-> a = b) x l :
  memb eqb x l = true <-> In x l.
Proof.
  induction l as [|y r IH]; simpl; [split; [discriminate | tauto]|].
  rewrite orb_true_iff, IH, H. split; intros [E|E]; auto.
Qed.

Lemma memb_notIn {A} (eqb : A -> A -> bool) (H : forall a b, eqb a b = true <-> a = b) x l :
  memb eqb x l = false <-> ~ In x l.
Proof.
  rewrite <- (memb_In eqb H). destruct (memb eqb x l); split; intro; try congruence; try tauto.
Qed.

Lemma contains_In e c : excl_contains e c = true <-> In (ms c) e.
Proof. apply memb_In, meqb_eq. Qed.
Lemma contains_notIn e c : excl_contains e c = false <-> ~ In (ms c) e.
Proof. apply memb_notIn, meqb_eq. Qed.

Lemma excl_add_In e c m : In m (excl_add e c) <-> m = ms c \/ In m e.
Proof.
  unfold Searcher.excl_add. destruct (excl_contains e c) eqn:E.
  - apply contains_In in E. split; [auto|]. intros [->|H]; auto.
  - simpl. split; intros [H|H]; auto.
Qed.

Lemma excl_add_NoDup e c : NoDup e -> NoDup (excl_add e c).
Proof.
  intro H. unfold Searcher.excl_add. destruct (excl_contains e c) eqn:E; [assumption|].
  constructor; [apply contains_notIn; assumption | assumption].
Qed.

Lemma fold_add_In l : forall e m,
  In m (fold_left excl_add l e) <-> In m e \/ In m (map ms l).
Proof.
  induction l as [|c r IH]; intros e m; simpl; [tauto|].
  rewrite IH, excl_add_In. split; intros H; intuition.
Qed.

(* ---------------- dedup ------------------------------------------------ *)
Lemma dedup_In l : forall seen x, In x (dedup C ceqb seen l) <-> In x l /\ ~ In x seen.
Proof.
  induction l as [|c r IH]; intros seen x; simpl; [tauto|].
  destruct (memb ceqb c seen) eqn:E.
  - apply (memb_In ceqb ceqb_eq) in E. rewrite IH. split.
    + intros [H1 H2]; auto.
    + intros [[->|H1] H2]; [contradiction | auto].
  - apply (memb_notIn ceqb ceqb_eq) in E. simpl. rewrite IH. simpl. split.
    + intros [->|[H1 H2]]; [auto | split; [auto | intro; apply H2; auto]].
    + intros [[->|H1] H2]; [auto|].
      destruct (ceqb c x) eqn:Ex; [apply ceqb_eq in Ex; auto|].
      right. split; [assumption|]. intros [->|H3]; [|contradiction].
      assert (ceqb x x = true) by (apply ceqb_eq; reflexivity). congruence.
Qed.

Lemma dedup_NoDup l : forall seen, NoDup (dedup C ceqb seen l).
Proof.
  induction l as [|c r IH]; intros seen; simpl; [constructor|].
  destruct (memb ceqb c seen) eqn:E; [apply IH|].
  constructor; [|apply IH]. rewrite dedup_In. simpl. intros [_ H]. apply H. auto.
Qed.

(* dedup keeps exactly the first occurrences, in order *)
Lemma dedup_first_occurrences l : forall seen,
  dedup C ceqb seen l =
  (fix go (seen : list C) (l : list C) :=
     match l with
     | [] => []
     | c :: r => if memb ceqb c seen then go seen r else c :: go (c :: seen) r
     end) seen l.
Proof. induction l; intros; reflexivity. Qed.

Lemma impute_points_NoDup {P} (imp : P -> C) dflt pts : NoDup (impute_points C ceqb imp dflt pts).
Proof. apply dedup_NoDup. Qed.

Lemma impute_points_In {P} (imp : P -> C) dflt pts x :
  In x (impute_points C ceqb imp dflt pts) <->
  In x (map imp (match pts with None => [dflt] | Some l => l end)).
Proof. unfold impute_points. rewrite dedup_In. simpl. tauto. Qed.

(* ---------------- sample_random_configuration ------------------------- *)
Lemma sample_loop_some n e : forall ds c ds',
  sample_loop C M meqb ms n e ds = Ok (Some c, ds') -> ~ In (ms c) e.
Proof.
  induction n as [|n IH]; intros ds c ds' H; simpl in H; [discriminate|].
  destruct ds as [|[d|p] ds0]; try discriminate.
  destruct (excl_contains e d) eqn:E.
  - eapply IH; eauto.
  - injection H as -> _. apply contains_notIn. assumption.
Qed.

Lemma sample_loop_none n e : forall ds ds',
  sample_loop C M meqb ms n e ds = Ok (None, ds') ->
  exists pre, ds = map DCfg pre ++ ds' /\ length pre = n /\ forall c, In c pre -> In (ms c) e.
Proof.
  induction n as [|n IH]; intros ds ds' H; simpl in H.
  - injection H as ->. exists []. simpl. repeat split; auto. intros c [].
  - destruct ds as [|[d|p] ds0]; try discriminate.
    destruct (excl_contains e d) eqn:E; [|discriminate].
    destruct (IH _ _ H) as (pre & -> & Hl & Hin). exists (d :: pre). simpl. repeat split; auto.
    intros c [<-|Hc]; [apply contains_In; assumption | auto].
Qed.

Lemma sample_random_some r sz e ds c ds' :
  sample_random C M meqb ms r sz e ds = Ok (Some c, ds') -> ~ In (ms c) e.
Proof.
  unfold sample_random. destruct (excl_exhausted M sz e); [discriminate|]. apply sample_loop_some.
Qed.

Lemma sample_random_none r sz e ds ds' :
  sample_random C M meqb ms r sz e ds = Ok (None, ds') ->
  excl_exhausted M sz e = true \/
  exists pre, ds = map DCfg pre ++ ds' /\ length pre = r /\ forall c, In c pre -> In (ms c) e.
Proof.
  unfold sample_random. destruct (excl_exhausted M sz e); [auto|]. intro H. right.
  apply sample_loop_none. assumption.
Qed.

(* ---------------- RandomSearcher: get_config cases -------------------- *)
Lemma rs_get_initial (s : rs_state) c r ds :
  rs_p2e _ _ s = c :: r ->
  exists s', rs_get_config s ds = Ok (s', Some c, ds) /\ rs_p2e _ _ s' = r /\
             rs_allow_dup _ _ s' = rs_allow_dup _ _ s /\ rs_debug _ _ s' = rs_debug _ _ s /\
             rs_size _ _ s' = rs_size _ _ s /\ rs_retries _ _ s' = rs_retries _ _ s /\
             rs_cft _ _ s' = rs_cft _ _ s /\
             (rs_restrict _ _ s = None -> rs_restrict _ _ s' = None /\ rs_rcpos _ _ s' = rs_rcpos _ _ s) /\
             (rs_allow_dup _ _ s = false -> rs_excl _ _ s' = excl_add (rs_excl _ _ s) c) /\
             (rs_allow_dup _ _ s = true -> rs_excl _ _ s' = rs_excl _ _ s).
Proof.
  intro Hp. unfold Searcher.rs_get_config. rewrite Hp.
  destruct (rs_allow_dup _ _ s) eqn:Ea.
  - eexists. split; [reflexivity|]. simpl. repeat split; auto; discriminate.
  - destruct (rs_restrict _ _ s) as [rc|] eqn:Er.
    + destruct (rs_rcpos _ _ s) as [[|p ps]|] eqn:Ep;
        (eexists; split; [reflexivity|]; simpl; repeat split; auto; discriminate).
    + eexists. split; [reflexivity|]. simpl. repeat split; auto; discriminate.
Qed.

(* get_config when no initial point is left and restrict_configurations is None *)
Lemma rs_get_random (s : rs_state) ds :
  rs_p2e _ _ s = [] -> rs_restrict _ _ s = None ->
  match sample_random C M meqb ms (rs_retries _ _ s) (rs_size _ _ s) (rs_excl _ _ s) ds with
  | Err x => rs_get_config s ds = Err x
  | Ok (c, ds') =>
      rs_get_config s ds =
      Ok (rs_with C M s [] (match c with
                            | Some c' => if rs_allow_dup _ _ s then rs_excl _ _ s else excl_add (rs_excl _ _ s) c'
                            | None => rs_excl _ _ s end)
                  (rs_cft _ _ s) None (rs_rcpos _ _ s), c, ds')
  end.
Proof.
  intros Hp Hr. unfold Searcher.rs_get_config, rs_random_config. rewrite Hp, Hr.
  destruct (sample_random C M meqb ms (rs_retries C M s) (rs_size C M s) (rs_excl C M s) ds) as [[c ds']|x];
    [|reflexivity].
  destruct c as [c|]; [|reflexivity].
  destruct (rs_allow_dup _ _ s); reflexivity.
Qed.

(* ---------------- C06: initial points first --------------------------- *)
Definition ok_some (c : C) : res (option C) := Ok (Some c).

Lemma rs_step_p2e_other s e : (forall ds, e <> RGet C ds) ->
  rs_p2e _ _ (fst (rs_step s e)) = rs_p2e _ _ s /\ snd (rs_step s e) = [].
Proof.
  intro H. destruct e as [ds|t c|t|t]; simpl.
  - exfalso. eapply H; reflexivity.
  - unfold rs_register_pending. destruct (rs_cft _ _ s); [|auto].
    destruct (rs_allow_dup _ _ s); [|auto]. destruct (lookupZ t l); auto.
  - unfold rs_evaluation_failed. destruct (rs_cft _ _ s); [|auto].
    destruct (rs_allow_dup _ _ s); [|auto]. destruct (lookupZ t l); auto.
  - auto.
Qed.

Lemma rs_initial_first es : forall s,
  firstn (length (rs_p2e _ _ s)) (snd (rs_run s es)) =
  map ok_some (firstn (length (snd (rs_run s es))) (rs_p2e _ _ s)).
Proof.
  induction es as [|e r IH]; intros s; simpl.
  - rewrite firstn_nil. reflexivity.
  - destruct (rs_step s e) as [s1 o1] eqn:E1. destruct (rs_run s1 r) as [s2 o2] eqn:E2. simpl.
    specialize (IH s1). rewrite E2 in IH. simpl in IH.
    destruct e as [ds|t c|t|t].
    + simpl in E1. destruct (rs_p2e _ _ s) as [|c p] eqn:Ep.
      * simpl. rewrite firstn_nil. reflexivity.
      * destruct (rs_get_initial s c p ds Ep) as (s' & Hg & Hp' & _).
        rewrite Hg in E1. injection E1 as <- <-. simpl. rewrite Hp' in IH. rewrite IH. reflexivity.
    + destruct (rs_step_p2e_other s (RPending C t c)) as [H1 H2]; [discriminate|].
      rewrite E1 in H1, H2. simpl in H1, H2. subst o1. simpl. rewrite <- H1. apply IH.
    + destruct (rs_step_p2e_other s (RFailed C t)) as [H1 H2]; [discriminate|].
      rewrite E1 in H1, H2. simpl in H1, H2. subst o1. simpl. rewrite <- H1. apply IH.
    + destruct (rs_step_p2e_other s (RUpdate C t)) as [H1 H2]; [discriminate|].
      rewrite E1 in H1, H2. simpl in H1, H2. subst o1. simpl. rewrite <- H1. apply IH.
Qed.

Lemma rs_ctor_p2e pts dl ad sz rt s :
  rs_ctor C M meqb ms pts dl ad None sz rt = Ok s ->
  rs_p2e _ _ s = pts /\ rs_excl _ _ s = [] /\ rs_restrict _ _ s = None /\ rs_rcpos _ _ s = None /\
  rs_allow_dup _ _ s = ad /\ rs_size _ _ s = sz /\ rs_retries _ _ s = rt /\
  rs_cft _ _ s = (if ad then Some [] else None).
Proof.
  unfold rs_ctor. destruct dl as [b| |]; intro H; try discriminate; injection H as <-; simpl; auto 10.
Qed.


(* ---------------- C06: no repeats (RandomSearcher) --------------------- *)
Lemma suggested_app o1 o2 : suggested (o1 ++ o2) = suggested o1 ++ suggested o2.
Proof.
  induction o1 as [|a r IH]; simpl; auto.
  destruct a as [[c | ] | x]; simpl; rewrite ?IH; auto.
Qed.

(* every suggestion is an initial point or has a match string different from
   the match strings of all earlier suggestions *)
Definition ms_fresh (init outs : list C) : Prop :=
  forall pre c post, outs = pre ++ c :: post -> In c init \/ ~ In (ms c) (map ms pre).

Lemma ms_fresh_nil init : ms_fresh init [].
Proof. intros [|x0 pre0] c0 post0 H; discriminate. Qed.

Lemma ms_fresh_snoc init outs c :
  ms_fresh init outs -> (In c init \/ ~ In (ms c) (map ms outs)) -> ms_fresh init (outs ++ [c]).
Proof.
  intros H Hc pre c' post. induction post as [|x post' _] using rev_ind; intro E.
  - apply app_inj_tail in E as [-> ->]. assumption.
  - rewrite app_comm_cons, app_assoc in E. apply app_inj_tail in E as [E _].
    eapply H; eauto.
Qed.

Record rs_inv (init : list C) (s : rs_state) (outs : list C) : Prop := {
  iv_ad : rs_allow_dup _ _ s = false;
  iv_rc : rs_restrict _ _ s = None;
  iv_ex : forall c, In c outs -> In (ms c) (rs_excl _ _ s);
  iv_ex2 : forall m, In m (rs_excl _ _ s) -> In m (map ms outs);
  iv_exnd : NoDup (rs_excl _ _ s);
  iv_nd : NoDup outs;
  iv_p2e_nd : NoDup (rs_p2e _ _ s);
  iv_p2e_out : forall c, In c (rs_p2e _ _ s) -> ~ In c outs;
  iv_p2e_init : incl (rs_p2e _ _ s) init;
  iv_fresh : ms_fresh init outs }.

Lemma NoDup_snoc {A} (l : list A) x : NoDup l -> ~ In x l -> NoDup (l ++ [x]).
Proof.
  intros H Hx. induction l as [|y l IH]; simpl.
  - constructor; [intros []|constructor].
  - inversion H as [|? ? Hy Hl]; subst. constructor.
    + intro Hin. apply in_app_or in Hin as [Hin|[->|[]]]; [contradiction|]. apply Hx. left; reflexivity.
    + apply IH; [assumption|]. intro Hin. apply Hx. right; assumption.
Qed.

Lemma rs_inv_step init s outs e :
  rs_inv init s outs -> rs_inv init (fst (rs_step s e)) (outs ++ suggested (snd (rs_step s e))).
Proof.
  intros I. destruct I as [Had Hrc Hex Hex2 Hexnd Hnd Hpnd Hpout Hpinit Hfr].
  assert (Same : rs_inv init s (outs ++ [])) by (rewrite app_nil_r; constructor; assumption).
  destruct e as [ds|t c|t|t]; simpl.
  - destruct (rs_p2e _ _ s) as [|c r] eqn:Ep.
    + pose proof (rs_get_random s ds Ep Hrc) as G.
      destruct (sample_random C M meqb ms (rs_retries C M s) (rs_size C M s) (rs_excl C M s) ds)
        as [[[c | ] ds'] | x] eqn:Es; rewrite G; simpl; try exact Same.
      * rewrite Had. apply sample_random_some in Es.
        assert (Hc : ~ In c outs) by (intro Hc; apply Es, Hex, Hc).
        assert (Hm : ~ In (ms c) (map ms outs)).
        { intro Hm. apply in_map_iff in Hm as (c' & E' & Hc'). apply Es. rewrite <- E'. apply Hex, Hc'. }
        constructor; simpl.
        -- assumption.
        -- reflexivity.
        -- intros c' Hc'. apply excl_add_In. apply in_app_or in Hc' as [Hc'|[<-|[]]]; auto.
        -- intros m Hm'. apply excl_add_In in Hm' as [->|Hm']; rewrite map_app; apply in_or_app; simpl; auto.
        -- apply excl_add_NoDup; assumption.
        -- apply NoDup_snoc; assumption.
        -- constructor.
        -- intros x Hx; destruct Hx.
        -- intros x Hx; destruct Hx.
        -- apply ms_fresh_snoc; auto.
      * rewrite app_nil_r. constructor; simpl; try assumption; try reflexivity.
    + destruct (rs_get_initial s c r ds Ep) as (s' & Hg & Hp' & Had' & _ & _ & _ & _ & Hrc' & Hex' & _).
      rewrite Hg. simpl. specialize (Hrc' Hrc) as [Hrc' _]. specialize (Hex' Had).
      assert (Hcr : ~ In c r) by (inversion Hpnd; assumption).
      assert (Hr' : NoDup r) by (inversion Hpnd; assumption).
      constructor; simpl; try congruence.
      * intros c' Hc'. rewrite Hex'. apply excl_add_In. apply in_app_or in Hc' as [Hc'|[<-|[]]]; auto.
      * intros m Hm'. rewrite Hex' in Hm'. apply excl_add_In in Hm' as [->|Hm'];
          rewrite map_app; apply in_or_app; simpl; auto.
      * rewrite Hex'. apply excl_add_NoDup; assumption.
      * apply NoDup_snoc; [assumption|]. apply Hpout. left; reflexivity.
      * rewrite Hp'. intros c' Hc' Hin. apply in_app_or in Hin as [Hin|[<-|[]]].
        -- eapply Hpout; [right; exact Hc' | exact Hin].
        -- contradiction.
      * rewrite Hp'. intros x Hx. apply Hpinit. right; assumption.
      * apply ms_fresh_snoc; [assumption|]. left. apply Hpinit. left; reflexivity.
  - unfold rs_register_pending. destruct (rs_cft _ _ s); rewrite ?Had; exact Same.
  - unfold rs_evaluation_failed. destruct (rs_cft _ _ s); rewrite ?Had; exact Same.
  - exact Same.
Qed.

Lemma rs_inv_run init es : forall s outs,
  rs_inv init s outs -> rs_inv init (fst (rs_run s es)) (outs ++ suggested (snd (rs_run s es))).
Proof.
  induction es as [|e r IH]; intros s outs I; simpl.
  - rewrite app_nil_r. assumption.
  - pose proof (rs_inv_step init s outs e I) as I1.
    destruct (rs_step s e) as [s1 o1]. simpl in I1.
    pose proof (IH s1 _ I1) as I2. destruct (rs_run s1 r) as [s2 o2]. simpl in *.
    rewrite suggested_app, app_assoc. assumption.
Qed.

Lemma rs_inv_ctor pts dl sz rt s :
  NoDup pts -> rs_ctor C M meqb ms pts dl false None sz rt = Ok s -> rs_inv pts s [].
Proof.
  intros Hnd Hc. apply rs_ctor_p2e in Hc as (Hp & He & Hr & _ & Ha & _).
  constructor; simpl; try assumption.
  - intros c Hc; destruct Hc.
  - rewrite He. intros m Hm; destruct Hm.
  - rewrite He. constructor.
  - constructor.
  - rewrite Hp. assumption.
  - intros c _ Hc; destruct Hc.
  - rewrite Hp. apply incl_refl.
  - apply ms_fresh_nil.
Qed.

(* ---------------- C06: 'nothing left' from the random searcher ---------- *)
Lemma rs_none_reason (s s' : rs_state) ds ds' :
  rs_restrict _ _ s = None -> rs_get_config s ds = Ok (s', None, ds') ->
  rs_p2e _ _ s = [] /\
  (excl_exhausted M (rs_size _ _ s) (rs_excl _ _ s) = true \/
   exists pre, ds = map DCfg pre ++ ds' /\ length pre = rs_retries _ _ s /\
               forall c, In c pre -> In (ms c) (rs_excl _ _ s)).
Proof.
  intros Hrc Hg. destruct (rs_p2e _ _ s) as [|c r] eqn:Ep.
  - split; [reflexivity|]. pose proof (rs_get_random s ds Ep Hrc) as G.
    destruct (sample_random C M meqb ms (rs_retries C M s) (rs_size C M s) (rs_excl C M s) ds)
      as [[[c | ] ds''] | x] eqn:Es; rewrite G in Hg; try discriminate.
    injection Hg as _ <-. apply sample_random_none in Es. assumption.
  - destruct (rs_get_initial s c r ds Ep) as (s'' & Hg' & _). rewrite Hg' in Hg. discriminate.
Qed.

Lemma exhausted_all (space e : list M) :
  NoDup e -> incl e space -> excl_exhausted M (Some (length space)) e = true -> incl space e.
Proof.
  intros Hnd Hi He. simpl in He. apply Nat.leb_le in He.
  apply NoDup_length_incl; assumption.
Qed.


(* ---------------- C06: grid search enumerates its grid exactly once ----- *)
Notation gs_state := (gs_state C M).
Notation gs_get_config := (gs_get_config C M meqb ms).
Notation gs_run := (gs_run C M meqb ms).

(* first element of [l] that is not excluded, and the rest of the list *)
Fixpoint scanl (e : excl M) (l : list C) : option (C * list C) :=
  match l with
  | [] => None
  | c :: r => if excl_contains e c then scanl e r else Some (c, r)
  end.

Definition gs_same (s s' : gs_state) : Prop :=
  gs_p2e _ _ s' = gs_p2e _ _ s /\ gs_grid _ _ s' = gs_grid _ _ s /\ gs_init _ _ s' = gs_init _ _ s /\
  gs_allow_dup _ _ s' = gs_allow_dup _ _ s /\ gs_shuffle _ _ s' = gs_shuffle _ _ s.

Lemma skipn_cons_nth {A} (l : list A) : forall n c r,
  skipn n l = c :: r -> nth_error l n = Some c /\ skipn (S n) l = r /\ (n < length l)%nat.
Proof.
  induction l as [|a l IH]; intros [|n] c r H; simpl in *; try discriminate.
  - injection H as -> ->. repeat split; lia.
  - destruct (IH _ _ _ H) as (A1 & A2 & A3). repeat split; auto; lia.
Qed.

Lemma skipn_nil_ge {A} (l : list A) : forall n, skipn n l = [] -> (length l <= n)%nat.
Proof.
  induction l as [|a l IH]; intros [|n] H; simpl in *; try lia; try discriminate.
  apply IH in H. lia.
Qed.

Lemma next_cand_spec l : forall fuel (s : gs_state),
  gs_allow_dup _ _ s = false -> skipn (gs_next _ _ s) (gs_grid _ _ s) = l -> (length l < fuel)%nat ->
  exists s', gs_next_candidate C M meqb ms fuel s = (s', option_map fst (scanl (gs_init _ _ s) l)) /\
             gs_same s s' /\
             skipn (gs_next _ _ s') (gs_grid _ _ s') =
             match scanl (gs_init _ _ s) l with Some (_, r) => r | None => [] end.
Proof.
  induction l as [|c r IH]; intros fuel s Had Hs Hf.
  - destruct fuel; [simpl in Hf; lia|]. simpl.
    pose proof (skipn_nil_ge _ _ Hs) as Hge.
    destruct (Nat.ltb (gs_next C M s) (length (gs_grid C M s))) eqn:El; [apply Nat.ltb_lt in El; lia|].
    exists s. repeat split; auto.
  - destruct fuel; [simpl in Hf; lia|]. simpl in Hf.
    destruct (skipn_cons_nth _ _ _ _ Hs) as (Hn & Hs' & Hlt).
    simpl gs_next_candidate. rewrite (proj2 (Nat.ltb_lt _ _) Hlt), Hn, Had. simpl andb. cbv iota.
    simpl scanl. destruct (excl_contains (gs_init C M s) c) eqn:E.
    + destruct (IH fuel (gs_with C M s (gs_p2e C M s) (S (gs_next C M s)) (gs_init C M s)))
        as (s' & H1 & H2 & H3); simpl; auto; try lia.
      exists s'. simpl in H1, H3. rewrite H1. split; [reflexivity|]. split; [|assumption].
      destruct H2 as (A1 & A2 & A3 & A4 & A5). simpl in *. repeat split; assumption.
    + eexists. split; [reflexivity|]. simpl. split; [repeat split; reflexivity | assumption].
Qed.

Definition is_get (e : gs_event) : bool := match e with GGet => true | GOther => false end.
Definition count_gets (es : list gs_event) : nat := length (filter is_get es).

Lemma firstn_repeat {A} (a : A) : forall k m, (k <= m)%nat -> firstn k (repeat a m) = repeat a k.
Proof.
  induction k as [|k IH]; intros [|m] H; simpl; try reflexivity; try lia.
  rewrite IH; [reflexivity | lia].
Qed.

Lemma firstn_app_repeat {A} (a : A) (X : list A) : forall k m1 m2, (k <= m1)%nat -> (k <= m2)%nat ->
  firstn k (X ++ repeat a m1) = firstn k (X ++ repeat a m2).
Proof.
  induction X as [|x X IH]; intros k m1 m2 H1 H2; simpl.
  - rewrite !firstn_repeat; auto.
  - destruct k; [reflexivity|]. simpl. f_equal. apply IH; lia.
Qed.

Definition grid_ok (e : excl M) (g : C) : bool := negb (excl_contains e g).

Lemma scanl_filter e l :
  filter (grid_ok e) l = match scanl e l with Some (c, r) => c :: filter (grid_ok e) r | None => [] end.
Proof.
  induction l as [|c r IH]; simpl; [reflexivity|]. unfold grid_ok at 1.
  destruct (excl_contains e c); simpl; [assumption | reflexivity].
Qed.

Lemma gs_outputs es : forall (s : gs_state) l,
  gs_allow_dup _ _ s = false -> skipn (gs_next _ _ s) (gs_grid _ _ s) = l ->
  snd (gs_run s es) =
  firstn (count_gets es)
    (map Some (gs_p2e _ _ s ++ filter (grid_ok (fold_left excl_add (gs_p2e _ _ s) (gs_init _ _ s))) l)
     ++ repeat None (count_gets es)).
Proof.
  induction es as [|e es IH]; intros s l Had Hs; [reflexivity|].
  destruct e; simpl gs_run.
  - (* GGet *)
    unfold count_gets. simpl filter. simpl length. fold (count_gets es).
    unfold gs_step. unfold Searcher.gs_get_config.
    destruct (gs_p2e C M s) as [|c p] eqn:Ep.
    + destruct (next_cand_spec l (S (S (length (gs_grid C M s)))) s Had Hs) as (s' & H1 & H2 & H3).
      { rewrite <- Hs. rewrite skipn_length. lia. }
      rewrite H1. destruct H2 as (A1 & A2 & A3 & A4 & A5).
      specialize (IH s' _ (eq_trans A4 Had) H3).
      destruct (gs_run s' es) as [s2 o2]. simpl in IH. simpl snd. rewrite IH.
      rewrite A1, Ep, A3. simpl fold_left. simpl app at 1 3.
      rewrite (scanl_filter (gs_init C M s) l).
      destruct (scanl (gs_init C M s) l) as [[c r]|]; simpl.
      * f_equal. change (None :: repeat None (count_gets es)) with (repeat (@None C) (S (count_gets es))).
        apply firstn_app_repeat; lia.
      * reflexivity.
    + specialize (IH (gs_with C M s p (gs_next C M s) (excl_add (gs_init C M s) c)) l Had Hs).
      destruct (gs_run (gs_with C M s p (gs_next C M s) (excl_add (gs_init C M s) c)) es) as [s2 o2].
      simpl in IH. simpl snd. rewrite IH. simpl. f_equal.
      change (None :: repeat None (count_gets es)) with (repeat (@None C) (S (count_gets es))).
      apply firstn_app_repeat; lia.
  - (* GOther *)
    unfold count_gets. simpl filter. fold (count_gets es).
    specialize (IH s l Had Hs). simpl gs_step. destruct (gs_run s es) as [s2 o2]. simpl in *. assumption.
Qed.

Lemma grid_ok_fold pts g :
  grid_ok (fold_left excl_add pts []) g = true <-> ~ In (ms g) (map ms pts).
Proof.
  unfold grid_ok. rewrite negb_true_iff, contains_notIn, fold_add_In. simpl. tauto.
Qed.

Lemma grid_sequence_NoDup pts grid :
  NoDup pts -> NoDup grid ->
  NoDup (pts ++ filter (grid_ok (fold_left excl_add pts [])) grid).
Proof.
  intros Hp Hg. induction pts as [|x pts IH] using rev_ind.
  - simpl. apply NoDup_filter. assumption.
  - set (F := filter (grid_ok (fold_left excl_add (pts ++ [x]) [])) grid).
    assert (HF : NoDup F) by (apply NoDup_filter; assumption).
    assert (Hd : forall y, In y (pts ++ [x]) -> ~ In y F).
    { intros y Hy Hf. apply filter_In in Hf as [_ Hf]. apply grid_ok_fold in Hf.
      apply Hf. apply in_map. assumption. }
    clear IH. revert Hp Hd. generalize (pts ++ [x]) as P. intros P. induction P as [|y P IHP]; intros Hp Hd.
    + assumption.
    + simpl. inversion Hp as [|? ? Hy HP]; subst. constructor.
      * intro Hin. apply in_app_or in Hin as [Hin|Hin]; [contradiction|]. apply (Hd y); [left; reflexivity|assumption].
      * apply IHP; [assumption|]. intros z Hz. apply Hd. right; assumption.
Qed.


Lemma rs_ctor_grid_initial_first es : forall (s : gs_state),
  firstn (length (gs_p2e _ _ s)) (snd (gs_run s es)) =
  map Some (firstn (length (snd (gs_run s es))) (gs_p2e _ _ s)).
Proof.
  induction es as [|e r IH]; intros s; simpl.
  - rewrite firstn_nil. reflexivity.
  - destruct e; simpl.
    + unfold Searcher.gs_get_config. destruct (gs_p2e C M s) as [|c p] eqn:Ep.
      * destruct (gs_next_candidate C M meqb ms (S (S (length (gs_grid C M s)))) s) as [s1 o].
        destruct (gs_run s1 r). simpl. reflexivity.
      * specialize (IH (gs_with C M s p (gs_next C M s) (excl_add (gs_init C M s) c))).
        destruct (gs_run (gs_with C M s p (gs_next C M s) (excl_add (gs_init C M s) c)) r) as [s2 o2].
        simpl in *. rewrite IH. reflexivity.
    + specialize (IH s). destruct (gs_run s r). simpl in *. assumption.
Qed.

(* ---------------- C06: Bayesian optimisation never returns an excluded configuration *)
Lemma bo_select_not_excluded e opt cands : forall considered c,
  bo_select C M meqb ms e considered cands opt = Some c -> ~ In (ms c) e.
Proof.
  induction cands as [|x r IH]; intros considered c H; simpl in H; [discriminate|].
  destruct (memb meqb (ms x) considered); [eapply IH; eauto|].
  destruct (excl_contains e (opt x)) eqn:Eo.
  - destruct (excl_contains e x) eqn:Ex; [eapply IH; eauto|].
    injection H as <-. apply contains_notIn. assumption.
  - injection H as <-. apply contains_notIn. assumption.
Qed.

(* a greedily selected batch: pairwise different match strings, none of them excluded,
   for every ranking / local optimiser of every iteration *)
Lemma bo_batch_fresh size n : forall e oracles,
  NoDup (map ms (bo_batch C M meqb ms size n e oracles)) /\
  forall c, In c (bo_batch C M meqb ms size n e oracles) -> ~ In (ms c) e.
Proof.
  induction n as [|n IH]; intros e oracles; simpl; [split; [constructor | intros c []]|].
  destruct oracles as [|[cands opt] rest]; [split; [constructor | intros c []]|].
  destruct (excl_exhausted M size e); [split; [constructor | intros c []]|].
  destruct (bo_select C M meqb ms e [] cands opt) as [c|] eqn:Eb; [|split; [constructor | intros c []]].
  destruct (IH (excl_add e c) rest) as [Hnd Hex]. simpl. split.
  - constructor; [|assumption]. intro Hin. apply in_map_iff in Hin as (c' & Hm & Hc').
    apply (Hex c' Hc'). apply excl_add_In. left. assumption.
  - intros c' [<-|Hc'].
    + eapply bo_select_not_excluded; eauto.
    + intro Hin. apply (Hex c' Hc'). apply excl_add_In. right. assumption.
Qed.

Lemma mb_random_loop_not_excluded e n : forall (r r' : rs_state) ds c ds',
  mb_random_loop C M meqb ms n r e ds = Ok (r', Some c, ds') -> ~ In (ms c) e.
Proof.
  induction n as [|n IH]; intros r r' ds c ds' H; simpl in H; [discriminate|].
  destruct (rs_get_config r ds) as [[[r1 [c1|]] ds1]|x]; try discriminate.
  destruct (excl_contains e c1) eqn:E; [eapply IH; eauto|].
  injection H as _ <- _. apply contains_notIn. assumption.
Qed.

Lemma configs_of_In cfg ts c :
  In c (configs_of C cfg ts) <-> exists t, In t ts /\ lookupZ t cfg = Some c.
Proof.
  unfold configs_of. rewrite in_flat_map. split.
  - intros (t & Ht & Hc). exists t. split; [assumption|]. destruct (lookupZ t cfg); [|destruct Hc].
    destruct Hc as [->|[]]. reflexivity.
  - intros (t & Ht & Hc). exists t. split; [assumption|]. rewrite Hc. left; reflexivity.
Qed.

Lemma tj_excl_In (tj : tj_state C) b m :
  In m (tj_excl C M meqb ms tj b) <->
  exists t c, In t (tj_pending _ tj ++ tj_failed _ tj ++ (if b then [] else tj_obs _ tj)) /\
              lookupZ t (tj_cfg _ tj) = Some c /\ m = ms c.
Proof.
  unfold tj_excl, excl_of_configs. rewrite fold_add_In. simpl. rewrite in_map_iff. split.
  - intros [[]|(c & <- & Hc)]. apply configs_of_In in Hc as (t & Ht & Hl). eauto.
  - intros (t & c & Ht & Hl & ->). right. exists c. split; [reflexivity|]. apply configs_of_In. eauto.
Qed.

Lemma tj_excl_mono (tj : tj_state C) m :
  In m (tj_excl C M meqb ms tj true) -> In m (tj_excl C M meqb ms tj false).
Proof.
  rewrite !tj_excl_In. intros (t & c & Ht & Hl & ->). exists t, c. repeat split; auto.
  rewrite app_nil_r in Ht. apply in_app_or in Ht as [Ht|Ht]; apply in_or_app; auto.
  right. apply in_or_app; auto.
Qed.

(* a configuration suggested after the initial points is never one of a pending or
   failed trial, and (unless duplicates are allowed) never one already observed *)
Lemma mb_suggestion_not_excluded (s s' : mb_state C M) ds cands opt c ds' :
  mb_p2e _ _ s = [] ->
  mb_get_config C M meqb ms s ds cands opt = Ok (s', Some c, ds') ->
  ~ In (ms c) (tj_excl C M meqb ms (mb_tj _ _ s) true) /\
  (mb_allow_dup _ _ s = false -> ~ In (ms c) (tj_excl C M meqb ms (mb_tj _ _ s) false)).
Proof.
  intros Hp H. unfold mb_get_config in H. rewrite Hp in H.
  destruct (mb_pick_random C M s (tj_excl C M meqb ms (mb_tj C M s) false)).
  - destruct (mb_random_loop C M meqb ms (mb_outer C M s)
                (match mb_rs C M s with Some r => r | None => mb_fresh_rs C M s end)
                (tj_excl C M meqb ms (mb_tj C M s) false) ds) as [[[r' c'] ds'']|x] eqn:El; [|discriminate].
    injection H as _ -> _. apply mb_random_loop_not_excluded in El.
    split; [|auto]. intro Hin. apply El. apply tj_excl_mono. assumption.
  - destruct (mb_allow_dup C M s) eqn:Ea; simpl in H.
    + injection H as _ H _. apply bo_select_not_excluded in H. split; [assumption | discriminate].
    + destruct (excl_exhausted M (mb_size C M s) (tj_excl C M meqb ms (mb_tj C M s) false)); simpl in H;
        [discriminate|].
      injection H as _ H _. apply bo_select_not_excluded in H.
      split; [|auto]. intro Hin. apply H. apply tj_excl_mono. assumption.
Qed.

(* ---------------- C06: restrict_configurations (RandomSearcher) --------------------------- *)
Lemma restrict_loop_some n rc e ad : forall pos ds c pos' ds',
  restrict_loop C M meqb ms n rc e ad pos ds = Ok (Some c, pos', ds') -> In c rc /\ ~ In (ms c) e.
Proof.
  induction n as [|n IH]; intros pos ds c pos' ds' H; simpl in H; [discriminate|].
  destruct ds as [|[d|p] ds0]; try discriminate.
  destruct (nth_error rc p) as [c0|] eqn:En; [|discriminate].
  destruct (excl_contains e c0) eqn:E; [eapply IH; eauto|].
  assert (Hc : In c0 rc /\ ~ In (ms c0) e) by (split; [eapply nth_error_In; eauto | apply contains_notIn; assumption]).
  destruct ad; [injection H as <- _ _; exact Hc|].
  destruct pos as [ps|]; [injection H as <- _ _; exact Hc | discriminate].
Qed.

Lemma restrict_loop_none n rc e ad : forall pos ds pos' ds',
  restrict_loop C M meqb ms n rc e ad pos ds = Ok (None, pos', ds') ->
  exists ps, ds = map (@DPos C) ps ++ ds' /\ length ps = n /\
             forall p, In p ps -> exists c, nth_error rc p = Some c /\ In (ms c) e.
Proof.
  induction n as [|n IH]; intros pos ds pos' ds' H; simpl in H.
  - injection H as _ <-. exists []. simpl. repeat split; auto. intros p [].
  - destruct ds as [|[d|p] ds0]; try discriminate.
    destruct (nth_error rc p) as [c0|] eqn:En; [|discriminate].
    destruct (excl_contains e c0) eqn:E.
    + destruct (IH _ _ _ _ H) as (ps & -> & Hl & Hin). exists (p :: ps). simpl. repeat split; auto.
      intros q [<-|Hq]; [exists c0; split; [assumption | apply contains_In; assumption] | auto].
    + destruct ad; [discriminate|]. destruct pos; discriminate.
Qed.

(* get_config of a RandomSearcher with restrict_configurations, once the initial points are used up *)
Lemma rs_restrict_get_config (s s' : rs_state) rc ds oc ds' :
  rs_p2e _ _ s = [] -> rs_restrict _ _ s = Some rc ->
  rs_get_config s ds = Ok (s', oc, ds') ->
  match oc with
  | Some c => In c rc /\ ~ In (ms c) (rs_excl _ _ s)
  | None => rc = [] \/
            exists ps, ds = map (@DPos C) ps ++ ds' /\ length ps = rs_retries _ _ s /\
                       forall p, In p ps -> exists c, nth_error rc p = Some c /\ In (ms c) (rs_excl _ _ s)
  end.
Proof.
  intros Hp Hr H. unfold Searcher.rs_get_config, rs_random_config in H. rewrite Hp, Hr in H.
  destruct rc as [|x rc'].
  - injection H as _ <- _. left. reflexivity.
  - destruct (restrict_loop C M meqb ms (rs_retries C M s) (x :: rc') (rs_excl C M s) (rs_allow_dup C M s)
                (rs_rcpos C M s) ds) as [[[c1 pos1] ds1]|e1] eqn:El; [|discriminate].
    destruct c1 as [c1|].
    + assert (Hoc : oc = Some c1 /\ ds' = ds1).
      { destruct (rs_allow_dup C M s); [injection H as _ <- <-; auto|].
        destruct pos1 as [[|p ps]|]; injection H as _ <- <-; auto. }
      destruct Hoc as [-> ->]. eapply restrict_loop_some; eauto.
    + injection H as _ <- <-. right. eapply restrict_loop_none; eauto.
Qed.

(* ---------------- C06: run-level no-repeat for the model-based searcher ---------------- *)
Lemma lookupZ_app {A} t (l : list (Z * A)) t' (c : A) :
  lookupZ t (l ++ [(t', c)]) =
  match lookupZ t l with Some x => Some x | None => if Z.eqb t t' then Some c else None end.
Proof.
  induction l as [|[k v] r IH]; simpl; [destruct (Z.eqb t t'); reflexivity|].
  destruct (Z.eqb t k); [reflexivity | exact IH].
Qed.

Lemma remZ_In t x l : In x (remZ t l) <-> In x l /\ x <> t.
Proof.
  unfold remZ. rewrite filter_In, negb_true_iff, Z.eqb_neq. tauto.
Qed.

Lemma mem_Z_In x l : mem_Z x l = true <-> In x l.
Proof.
  induction l as [|y r IH]; simpl; [split; [discriminate | tauto]|].
  rewrite orb_true_iff, IH, Z.eqb_eq. split; intros [H|H]; auto.
Qed.

Definition tracked (tj : tj_state C) (t : Z) : Prop :=
  In t (tj_pending _ tj) \/ In t (tj_failed _ tj) \/ In t (tj_obs _ tj).

Lemma tracked_excl (tj : tj_state C) t c :
  tracked tj t -> lookupZ t (tj_cfg _ tj) = Some c -> In (ms c) (tj_excl C M meqb ms tj false).
Proof.
  intros Ht Hl. apply tj_excl_In. exists t, c. split; [|auto].
  destruct Ht as [H|[H|H]]; apply in_or_app; [left; assumption | right | right];
    apply in_or_app; [left | right]; assumption.
Qed.

Record mb_inv (init : list C) (s : mb_state C M) (outs : list C) : Prop := {
  mi_ad : mb_allow_dup _ _ s = false;
  mi_reg : forall c, In c outs -> exists t, tracked (mb_tj _ _ s) t /\ lookupZ t (tj_cfg _ (mb_tj _ _ s)) = Some c;
  mi_nd : NoDup outs;
  mi_p2e_nd : NoDup (mb_p2e _ _ s);
  mi_p2e_out : forall c, In c (mb_p2e _ _ s) -> ~ In c outs;
  mi_p2e_init : incl (mb_p2e _ _ s) init;
  mi_fresh : ms_fresh init outs }.

(* the scheduler numbers trials consecutively: a new trial id is unknown to the searcher *)
Definition mb_new_id (s : mb_state C M) (t : Z) : Prop :=
  lookupZ t (tj_cfg _ (mb_tj _ _ s)) = None /\ ~ In t (tj_pending _ (mb_tj _ _ s)) /\ ~ In t (tj_obs _ (mb_tj _ _ s)).

Fixpoint mb_new_ids (s : mb_state C M) (es : list (mb_event C)) : Prop :=
  match es with
  | [] => True
  | e :: r =>
      match e with MSuggest _ t _ _ _ => mb_new_id s t | _ => True end /\
      mb_new_ids (fst (mb_step C M meqb ms s e)) r
  end.

Lemma mb_get_config_shape (s s' : mb_state C M) ds cands opt oc ds' :
  mb_get_config C M meqb ms s ds cands opt = Ok (s', oc, ds') ->
  mb_tj _ _ s' = mb_tj _ _ s /\ mb_allow_dup _ _ s' = mb_allow_dup _ _ s /\
  ((exists c rest, mb_p2e _ _ s = c :: rest /\ oc = Some c /\ mb_p2e _ _ s' = rest) \/
   (mb_p2e _ _ s = [] /\ mb_p2e _ _ s' = [])).
Proof.
  unfold mb_get_config. destruct (mb_p2e C M s) as [|c rest] eqn:Ep.
  - destruct (mb_pick_random C M s (tj_excl C M meqb ms (mb_tj C M s) false)).
    + destruct (mb_random_loop C M meqb ms (mb_outer C M s)
                  (match mb_rs C M s with Some r => r | None => mb_fresh_rs C M s end)
                  (tj_excl C M meqb ms (mb_tj C M s) false) ds) as [[[r' c'] ds'']|x]; [|discriminate].
      intro H. injection H as <- _ _. simpl. auto.
    + destruct (mb_allow_dup C M s || negb (excl_exhausted M (mb_size C M s) (tj_excl C M meqb ms (mb_tj C M s) false)));
        intro H; injection H as <- _ _; simpl; auto.
  - intro H. injection H as <- <- _. simpl. split; [reflexivity|]. split; [reflexivity|].
    left. exists c, rest. auto.
Qed.

Lemma mb_inv_keep init (s s' : mb_state C M) outs :
  mb_inv init s outs ->
  mb_allow_dup _ _ s' = mb_allow_dup _ _ s ->
  (forall t c, tracked (mb_tj _ _ s) t -> lookupZ t (tj_cfg _ (mb_tj _ _ s)) = Some c ->
               tracked (mb_tj _ _ s') t /\ lookupZ t (tj_cfg _ (mb_tj _ _ s')) = Some c) ->
  (mb_p2e _ _ s' = mb_p2e _ _ s \/ (mb_p2e _ _ s = [] /\ mb_p2e _ _ s' = [])) ->
  mb_inv init s' outs.
Proof.
  intros [Had Hreg Hnd Hpn Hpo Hpi Hfr] Ha Ht Hp.
  assert (Ep : mb_p2e _ _ s' = mb_p2e _ _ s) by (destruct Hp as [Hp|[Hp1 Hp2]]; congruence).
  constructor; try assumption; try (rewrite Ep; assumption).
  - congruence.
  - intros c Hc. destruct (Hreg c Hc) as (t & T1 & T2). exists t. apply Ht; assumption.
Qed.

Lemma mb_inv_step init s outs e :
  mb_inv init s outs ->
  match e with MSuggest _ t _ _ _ => mb_new_id s t | _ => True end ->
  mb_inv init (fst (mb_step C M meqb ms s e)) (outs ++ suggested (snd (mb_step C M meqb ms s e))).
Proof.
  intros I Hid. destruct e as [t ds cands opt|t c|t|t]; simpl.
  - (* suggest *)
    destruct (mb_get_config C M meqb ms s ds cands opt) as [[[s' oc] ds']|x] eqn:Eg; simpl;
      [|rewrite app_nil_r; exact I].
    destruct (mb_get_config_shape _ _ _ _ _ _ _ Eg) as (Etj & Ead & Hshape).
    destruct oc as [c|]; simpl.
    + (* a configuration is suggested and registered as pending for the new trial *)
      destruct Hid as (Hl & Hp & Ho).
      unfold mb_register_pending. rewrite Etj.
      destruct (mem_Z t (tj_pending C (mb_tj C M s))) eqn:Emp; [apply mem_Z_In in Emp; contradiction|].
      destruct (mem_Z t (tj_obs C (mb_tj C M s))) eqn:Emo; [apply mem_Z_In in Emo; contradiction|].
      rewrite Hl. simpl.
      destruct I as [Had Hreg Hnd Hpn Hpo Hpi Hfr].
      assert (Hnew : ~ In c outs /\ (In c init \/ ~ In (ms c) (map ms outs)) /\
                     NoDup (mb_p2e _ _ s') /\ (forall c', In c' (mb_p2e _ _ s') -> ~ In c' (outs ++ [c])) /\
                     incl (mb_p2e _ _ s') init).
      { destruct Hshape as [(c0 & rest & Ep & Ec & Ep')|(Ep & Ep')].
        - injection Ec as Ec. subst c0. rewrite Ep in *. rewrite Ep'.
          assert (Hcr : ~ In c rest) by (inversion Hpn; assumption).
          assert (Hr : NoDup rest) by (inversion Hpn; assumption).
          repeat split.
          + apply Hpo. left; reflexivity.
          + left. apply Hpi. left; reflexivity.
          + assumption.
          + intros c' Hc' Hin. apply in_app_or in Hin as [Hin|[<-|[]]].
            * eapply Hpo; [right; exact Hc' | exact Hin].
            * contradiction.
          + intros x Hx. apply Hpi. right; assumption.
        - destruct (mb_suggestion_not_excluded s s' ds cands opt c ds' Ep Eg) as [_ Hex].
          specialize (Hex Had).
          assert (Hm : ~ In (ms c) (map ms outs)).
          { intro Hm. apply in_map_iff in Hm as (c' & E' & Hc').
            destruct (Hreg c' Hc') as (t' & T1 & T2). apply Hex. rewrite <- E'.
            eapply tracked_excl; eauto. }
          rewrite Ep'. repeat split.
          + intro Hc. apply Hm. apply in_map. assumption.
          + right. assumption.
          + constructor.
          + intros c' [].
          + intros x []. }
      destruct Hnew as (Hc & Hfc & Hpn' & Hpo' & Hpi').
      constructor; simpl.
      * congruence.
      * intros c' Hc'. apply in_app_or in Hc' as [Hc'|[<-|[]]].
        -- destruct (Hreg c' Hc') as (t' & T1 & T2). exists t'. split.
           ++ unfold tracked in *. simpl. destruct T1 as [T1|[T1|T1]]; auto.
              left. apply in_or_app. left. assumption.
           ++ rewrite lookupZ_app, T2. reflexivity.
        -- exists t. split.
           ++ unfold tracked. simpl. left. apply in_or_app. right. left. reflexivity.
           ++ rewrite lookupZ_app, Hl, Z.eqb_refl. reflexivity.
      * apply NoDup_snoc; assumption.
      * assumption.
      * assumption.
      * assumption.
      * apply ms_fresh_snoc; assumption.
    + (* nothing suggested *)
      rewrite app_nil_r. apply (mb_inv_keep init s s' outs I Ead).
      * intros t' c' T1 T2. rewrite Etj. auto.
      * destruct Hshape as [(c0 & rest & _ & Ec & _)|(Ep & Ep')]; [discriminate | right; auto].
  - (* update with a finite value: pending -> observed *)
    rewrite app_nil_r. apply (mb_inv_keep init s _ outs I); simpl; auto.
    intros t' c' T1 T2. split.
    + unfold tracked in *. simpl.
      destruct (Z.eq_dec t' t) as [->|Hne].
      * right. right. destruct (mem_Z t (tj_obs C (mb_tj C M s))) eqn:Em;
          [apply mem_Z_In; assumption | apply in_or_app; right; left; reflexivity].
      * destruct T1 as [T1|[T1|T1]]; [left; apply remZ_In; auto | auto |].
        right. right. destruct (mem_Z t (tj_obs C (mb_tj C M s))); [assumption | apply in_or_app; auto].
    + destruct (lookupZ t (tj_cfg C (mb_tj C M s))); [assumption|]. rewrite lookupZ_app, T2. reflexivity.
  - (* non-finite value: marked failed *)
    rewrite app_nil_r. unfold mb_update_nonfinite.
    destruct (lookupZ t (tj_cfg C (mb_tj C M s))) eqn:El; [|exact I].
    apply (mb_inv_keep init s _ outs I); simpl; auto.
    intros t' c' T1 T2. split; [|assumption].
    unfold tracked in *. simpl. destruct T1 as [T1|[T1|T1]]; auto.
    right. left. destruct (mem_Z t (tj_failed C (mb_tj C M s))); [assumption | apply in_or_app; auto].
  - (* failed: pending -> failed *)
    rewrite app_nil_r. apply (mb_inv_keep init s _ outs I); simpl; auto.
    intros t' c' T1 T2. split; [|assumption].
    unfold tracked in *. simpl.
    destruct (Z.eq_dec t' t) as [->|Hne].
    + right. left. destruct (mem_Z t (tj_failed C (mb_tj C M s))) eqn:Em;
        [apply mem_Z_In; assumption | apply in_or_app; right; left; reflexivity].
    + destruct T1 as [T1|[T1|T1]]; [left; apply remZ_In; auto | | auto].
      right. left. destruct (mem_Z t (tj_failed C (mb_tj C M s))); [assumption | apply in_or_app; auto].
Qed.

Lemma mb_inv_run init es : forall s outs,
  mb_inv init s outs -> mb_new_ids s es ->
  mb_inv init (fst (mb_run C M meqb ms s es)) (outs ++ suggested (snd (mb_run C M meqb ms s es))).
Proof.
  induction es as [|e r IH]; intros s outs I Hids; simpl.
  - rewrite app_nil_r. assumption.
  - destruct Hids as [Hid Hrest].
    pose proof (mb_inv_step init s outs e I Hid) as I1.
    destruct (mb_step C M meqb ms s e) as [s1 o1]. simpl in *.
    pose proof (IH s1 _ I1 Hrest) as I2. destruct (mb_run C M meqb ms s1 r) as [s2 o2]. simpl in *.
    rewrite suggested_app, app_assoc. assumption.
Qed.

Lemma mb_no_repeat pts num_init sz rt outer es :
  NoDup pts ->
  let s := mb_ctor C M pts num_init false sz rt outer in
  mb_new_ids s es ->
  NoDup (suggested (snd (mb_run C M meqb ms s es))) /\ ms_fresh pts (suggested (snd (mb_run C M meqb ms s es))).
Proof.
  intros Hnd s Hids.
  assert (I0 : mb_inv pts s []).
  { constructor; simpl; auto.
    - intros c [].
    - constructor.
    - apply incl_refl.
    - apply ms_fresh_nil. }
  pose proof (mb_inv_run pts es s [] I0 Hids) as I. simpl in I. destruct I. auto.
Qed.

(* DEHB retry loop *)
Lemma dehb_retry_new_not_excluded n e : forall cands c,
  dehb_retry C M meqb ms n e cands = Some (DNew C c) -> ~ In (ms c) e.
Proof.
  induction n as [|n IH]; intros cands c H; simpl in H; [discriminate|].
  destruct cands as [|[t|c0] r]; try discriminate.
  destruct (excl_contains e c0) eqn:E; [eapply IH; eauto|].
  injection H as <-. apply contains_notIn. assumption.
Qed.

Lemma dehb_retry_none n e : forall cands,
  dehb_retry C M meqb ms n e cands = None ->
  (length cands < n)%nat \/
  exists pre rest, cands = map (DNew C) pre ++ rest /\ length pre = n /\ forall c, In c pre -> In (ms c) e.
Proof.
  induction n as [|n IH]; intros cands H; simpl in H.
  - right. exists [], cands. simpl. repeat split; auto. intros c [].
  - destruct cands as [|[t|c0] r]; [left; simpl; lia | discriminate |].
    destruct (excl_contains e c0) eqn:E; [|discriminate].
    destruct (IH r H) as [Hl|(pre & rest & -> & Hlen & Hin)]; [left; simpl; lia|].
    right. exists (c0 :: pre), rest. simpl. repeat split; auto.
    intros c [<-|Hc]; [apply contains_In; assumption | auto].
Qed.

(* ---------------- C16: get_state / clone_from_state -------------------- *)
Definition rs_wf (s : rs_state) : Prop :=
  (rs_restrict _ _ s = None -> rs_rcpos _ _ s = None) /\
  (rs_allow_dup _ _ s = false -> rs_cft _ _ s = None).

Lemma rs_wf_step s e : rs_restrict _ _ s = None -> rs_wf s ->
  rs_wf (fst (rs_step s e)) /\ rs_restrict _ _ (fst (rs_step s e)) = None /\
  rs_debug _ _ (fst (rs_step s e)) = rs_debug _ _ s /\
  rs_allow_dup _ _ (fst (rs_step s e)) = rs_allow_dup _ _ s.
Proof.
  intros Hrc [W1 W2]. destruct e as [ds|t c|t|t]; simpl.
  - destruct (rs_p2e _ _ s) as [|c r] eqn:Ep.
    + pose proof (rs_get_random s ds Ep Hrc) as G.
      destruct (sample_random C M meqb ms (rs_retries C M s) (rs_size C M s) (rs_excl C M s) ds)
        as [[c ds']|x]; rewrite G; simpl; unfold rs_wf; auto.
    + destruct (rs_get_initial s c r ds Ep) as (s' & Hg & _ & Had & Hdb & _ & _ & Hcft & Hrc' & _).
      rewrite Hg. simpl. destruct (Hrc' Hrc) as [R1 R2]. unfold rs_wf.
      rewrite R1, R2, Hcft, Had, Hdb. auto.
  - unfold rs_register_pending. destruct (rs_cft _ _ s) as [d|] eqn:Ec;
      [destruct (rs_allow_dup _ _ s) eqn:Ea; [destruct (lookupZ t d)|]|];
      unfold rs_wf; simpl; repeat split; intros; auto; try congruence;
      try (exfalso; specialize (W2 eq_refl); discriminate).
  - unfold rs_evaluation_failed. destruct (rs_cft _ _ s) as [d|] eqn:Ec;
      [destruct (rs_allow_dup _ _ s) eqn:Ea; [destruct (lookupZ t d)|]|];
      unfold rs_wf; simpl; repeat split; intros; auto; try congruence;
      try (exfalso; specialize (W2 eq_refl); discriminate).
  - unfold rs_wf; auto.
Qed.

Lemma rs_wf_run es : forall s, rs_restrict _ _ s = None -> rs_wf s ->
  rs_wf (fst (rs_run s es)) /\ rs_restrict _ _ (fst (rs_run s es)) = None /\
  rs_debug _ _ (fst (rs_run s es)) = rs_debug _ _ s.
Proof.
  induction es as [|e r IH]; intros s Hrc W; simpl; [auto|].
  destruct (rs_wf_step s e Hrc W) as (W1 & R1 & D1 & _).
  destruct (rs_step s e) as [s1 o1]. simpl in *.
  destruct (IH s1 R1 W1) as (W2 & R2 & D2). destruct (rs_run s1 r) as [s2 o2]. simpl in *.
  repeat split; try apply W2; congruence.
Qed.

(* well-formedness of every reachable state, with or without restrict_configurations *)
Definition rs_wf2 (s : rs_state) : Prop :=
  rs_rcpos _ _ s = (match rs_restrict _ _ s with Some _ => Some [] | None => None end) /\
  (rs_allow_dup _ _ s = false -> rs_cft _ _ s = None).

Definition rs_static (s s' : rs_state) : Prop :=
  rs_debug _ _ s' = rs_debug _ _ s /\ rs_allow_dup _ _ s' = rs_allow_dup _ _ s /\
  rs_size _ _ s' = rs_size _ _ s /\ rs_retries _ _ s' = rs_retries _ _ s.

Lemma restrict_loop_pos n rc e ad : forall ds c pos' ds',
  restrict_loop C M meqb ms n rc e ad (Some []) ds = Ok (c, pos', ds') ->
  pos' = Some [] \/ (ad = false /\ exists c0 p, c = Some c0 /\ pos' = Some [p]).
Proof.
  induction n as [|n IH]; intros ds c pos' ds' H; simpl in H.
  - injection H as _ <- _. auto.
  - destruct ds as [|[d|p] ds0]; try discriminate.
    destruct (nth_error rc p) as [c0|]; [|discriminate].
    destruct (excl_contains e c0); [eapply IH; eauto|].
    destruct ad.
    + injection H as _ <- _. auto.
    + injection H as <- <- _. right. split; [reflexivity|]. exists c0, p. auto.
Qed.

Lemma rs_get_config_wf2 (s s' : rs_state) ds c ds' :
  rs_wf2 s -> rs_get_config s ds = Ok (s', c, ds') -> rs_wf2 s' /\ rs_static s s'.
Proof.
  intros [W1 W2] H. destruct s as [p2e ex cft rc pos dbg ad sz rt]. simpl in *. subst pos.
  unfold Searcher.rs_get_config, rs_random_config in H. simpl in H.
  assert (Fin : forall p2e' ex' cft' rc' pos',
            (pos' = match rc' with Some _ => Some [] | None => None end) ->
            (ad = false -> cft' = None) ->
            rs_wf2 (rs_with C M {| rs_p2e := p2e; rs_excl := ex; rs_cft := cft; rs_restrict := rc;
                                   rs_rcpos := match rc with Some _ => Some [] | None => None end;
                                   rs_debug := dbg; rs_allow_dup := ad; rs_size := sz; rs_retries := rt |}
                          p2e' ex' cft' rc' pos') /\
            rs_static {| rs_p2e := p2e; rs_excl := ex; rs_cft := cft; rs_restrict := rc;
                         rs_rcpos := match rc with Some _ => Some [] | None => None end;
                         rs_debug := dbg; rs_allow_dup := ad; rs_size := sz; rs_retries := rt |}
                      (rs_with C M {| rs_p2e := p2e; rs_excl := ex; rs_cft := cft; rs_restrict := rc;
                                      rs_rcpos := match rc with Some _ => Some [] | None => None end;
                                      rs_debug := dbg; rs_allow_dup := ad; rs_size := sz; rs_retries := rt |}
                               p2e' ex' cft' rc' pos')).
  { intros. unfold rs_wf2, rs_static. simpl. repeat split; auto. }
  destruct p2e as [|c0 p2e'].
  - destruct rc as [rc|].
    + destruct rc as [|x rc'].
      * injection H as <- <- <-. apply Fin; auto.
      * destruct (restrict_loop C M meqb ms rt (x :: rc') ex ad (Some []) ds) as [[[c1 pos1] ds1]|e1] eqn:El;
          [|discriminate].
        apply restrict_loop_pos in El.
        destruct c1 as [c1|].
        -- destruct ad.
           ++ destruct El as [->|[Hf _]]; [|discriminate]. injection H as <- <- <-. apply Fin; auto.
           ++ destruct El as [->|(_ & c2 & p & _ & ->)]; injection H as <- <- <-; apply Fin; auto.
        -- destruct El as [->|(_ & c2 & p & Hc & _)]; [|discriminate]. injection H as <- <- <-. apply Fin; auto.
    + destruct (sample_random C M meqb ms rt sz ex ds) as [[c1 ds1]|e1]; [|discriminate].
      destruct c1 as [c1|]; [destruct ad|]; injection H as <- <- <-; apply Fin; auto.
  - destruct ad.
    + injection H as <- <- <-. apply Fin; auto.
    + destruct rc as [rc|]; injection H as <- <- <-; apply Fin; auto.
Qed.

Lemma rs_step_wf2 s e : rs_wf2 s -> rs_wf2 (fst (rs_step s e)) /\ rs_static s (fst (rs_step s e)).
Proof.
  intros W. assert (Same : rs_wf2 s /\ rs_static s s) by (split; [assumption | unfold rs_static; auto]).
  destruct e as [ds|t c|t|t]; simpl.
  - destruct (rs_get_config s ds) as [[[s' c] ds']|x] eqn:E; simpl; [|exact Same].
    eapply rs_get_config_wf2; eauto.
  - destruct W as [W1 W2]. unfold rs_register_pending.
    destruct (rs_cft _ _ s) as [d|] eqn:Ec; [|exact Same].
    destruct (rs_allow_dup _ _ s) eqn:Ea; [|exact Same].
    destruct (lookupZ t d); [exact Same|].
    unfold rs_wf2, rs_static. simpl. rewrite Ea. repeat split; auto. discriminate.
  - destruct W as [W1 W2]. unfold rs_evaluation_failed.
    destruct (rs_cft _ _ s) as [d|] eqn:Ec; [|exact Same].
    destruct (rs_allow_dup _ _ s) eqn:Ea; [|exact Same].
    destruct (lookupZ t d); [|exact Same].
    unfold rs_wf2, rs_static. simpl. rewrite Ea. repeat split; auto.
  - exact Same.
Qed.

Lemma rs_run_wf2 es : forall s, rs_wf2 s -> rs_wf2 (fst (rs_run s es)).
Proof.
  induction es as [|e r IH]; intros s W; simpl; [assumption|].
  destruct (rs_step_wf2 s e W) as [W1 _]. destruct (rs_step s e) as [s1 o1]. simpl in *.
  specialize (IH s1 W1). destruct (rs_run s1 r) as [s2 o2]. simpl in *. assumption.
Qed.

Lemma rs_ctor_wf2 pts dl ad rc sz rt s :
  rs_ctor C M meqb ms pts dl ad rc sz rt = Ok s -> rs_wf2 s.
Proof.
  unfold rs_ctor. intro H.
  destruct rc as [[|x rc]|]; try discriminate.
  - destruct (filter_p2e C M meqb ms pts (x :: rc) ad) as [p rc'].
    destruct dl as [b| |]; try discriminate; injection H as <-; unfold rs_wf2; simpl;
      (split; [reflexivity | destruct ad; [discriminate | reflexivity]]).
  - destruct dl as [b| |]; try discriminate; injection H as <-; unfold rs_wf2; simpl;
      (split; [reflexivity | destruct ad; [discriminate | reflexivity]]).
Qed.

(* the clone IS the original state: the state relation of the bisimulation is equality *)
Lemma rs_clone_identity (s : rs_state) :
  rs_wf2 s -> rs_clone C M meqb ms s (rs_get_state C M s) = Ok s.
Proof.
  intros [W1 W2]. destruct s as [p2e ex cft rc pos dbg ad sz rt]. simpl in *. subst pos.
  unfold rs_clone, rs_ctor. destruct dbg; simpl; unfold rs_with; simpl;
    (destruct ad; simpl; [reflexivity | rewrite (W2 eq_refl); reflexivity]).
Qed.

Definition gs_static (s s' : gs_state) : Prop :=
  gs_grid _ _ s' = gs_grid _ _ s /\ gs_allow_dup _ _ s' = gs_allow_dup _ _ s /\
  gs_shuffle _ _ s' = gs_shuffle _ _ s.

Lemma gs_next_candidate_static fuel : forall (s : gs_state),
  gs_static s (fst (gs_next_candidate C M meqb ms fuel s)).
Proof.
  induction fuel as [|f IH]; intros s; [simpl; unfold gs_static; auto|].
  cbn [gs_next_candidate].
  destruct (Nat.ltb (gs_next C M s) (length (gs_grid C M s))); [|simpl; unfold gs_static; auto].
  destruct (nth_error (gs_grid C M s) (gs_next C M s)) as [c|]; [|simpl; unfold gs_static; auto].
  set (s1 := if gs_allow_dup C M s && Nat.eqb (S (gs_next C M s)) (length (gs_grid C M s))
             then gs_with C M s (gs_p2e C M s) 0 []
             else gs_with C M s (gs_p2e C M s) (S (gs_next C M s)) (gs_init C M s)).
  assert (H1 : gs_static s s1).
  { unfold s1. destruct (gs_allow_dup C M s && Nat.eqb (S (gs_next C M s)) (length (gs_grid C M s)));
      unfold gs_static; simpl; auto. }
  destruct (excl_contains (gs_init C M s) c); [|simpl; exact H1].
  specialize (IH s1). destruct H1 as (A1 & A2 & A3), IH as (B1 & B2 & B3).
  unfold gs_static. repeat split; congruence.
Qed.

Lemma gs_run_static es : forall (s : gs_state), gs_static s (fst (gs_run s es)).
Proof.
  induction es as [|e r IH]; intros s; simpl; [unfold gs_static; auto|].
  assert (H1 : gs_static s (fst (gs_step C M meqb ms s e))).
  { destruct e; simpl; [|unfold gs_static; auto]. unfold Searcher.gs_get_config.
    destruct (gs_p2e C M s); [|simpl; unfold gs_static; auto].
    pose proof (gs_next_candidate_static (S (S (length (gs_grid C M s)))) s) as H.
    destruct (gs_next_candidate C M meqb ms (S (S (length (gs_grid C M s)))) s). exact H. }
  destruct (gs_step C M meqb ms s e) as [s1 o1]. simpl in H1.
  specialize (IH s1). destruct (gs_run s1 r) as [s2 o2]. simpl in *.
  destruct H1 as (A1 & A2 & A3), IH as (B1 & B2 & B3). unfold gs_static. repeat split; congruence.
Qed.

Lemma gs_clone_identity {Seed} base (shuffle : Seed -> list C -> list C) dseed dpts (s : gs_state) :
  gs_clone C M base shuffle dseed dpts s (gs_get_state C M s) = s.
Proof. destruct s; reflexivity. Qed.

(* GP searcher: the clone differs from the original only in the lazily created internal
   random searcher *)
Lemma mb_clone_bookkeeping (s : mb_state C M) :
  mb_clone C M s (mb_get_state C M s) = mb_with C M s (mb_p2e _ _ s) (mb_tj _ _ s) None.
Proof. reflexivity. Qed.


(* ---------------- assembled statements (used by props/C06.v, C16.v) ---- *)
Lemma rs_step_static s e : rs_restrict _ _ s = None ->
  rs_size _ _ (fst (rs_step s e)) = rs_size _ _ s /\ rs_retries _ _ (fst (rs_step s e)) = rs_retries _ _ s.
Proof.
  intros Hrc. destruct e as [ds|t c|t|t]; simpl.
  - destruct (rs_p2e _ _ s) as [|c r] eqn:Ep.
    + pose proof (rs_get_random s ds Ep Hrc) as G.
      destruct (sample_random C M meqb ms (rs_retries C M s) (rs_size C M s) (rs_excl C M s) ds)
        as [[c ds']|x]; rewrite G; simpl; auto.
    + destruct (rs_get_initial s c r ds Ep) as (s' & Hg & _ & _ & _ & Hs & Hr & _).
      rewrite Hg. simpl. auto.
  - unfold rs_register_pending. destruct (rs_cft _ _ s) as [d|]; [|auto].
    destruct (rs_allow_dup _ _ s); [|auto]. destruct (lookupZ t d); simpl; auto.
  - unfold rs_evaluation_failed. destruct (rs_cft _ _ s) as [d|]; [|auto].
    destruct (rs_allow_dup _ _ s); [|auto]. destruct (lookupZ t d); simpl; auto.
  - auto.
Qed.

Lemma rs_run_static es : forall s, rs_restrict _ _ s = None -> rs_wf s ->
  rs_size _ _ (fst (rs_run s es)) = rs_size _ _ s /\ rs_retries _ _ (fst (rs_run s es)) = rs_retries _ _ s.
Proof.
  induction es as [|e r IH]; intros s Hrc W; simpl; [auto|].
  destruct (rs_wf_step s e Hrc W) as (W1 & R1 & _).
  destruct (rs_step_static s e Hrc) as [S1 S2].
  destruct (rs_step s e) as [s1 o1]. simpl in *.
  destruct (IH s1 R1 W1) as [T1 T2]. destruct (rs_run s1 r) as [s2 o2]. simpl in *. split; congruence.
Qed.

Lemma rs_ctor_wf pts dl ad sz rt s :
  rs_ctor C M meqb ms pts dl ad None sz rt = Ok s -> rs_wf s.
Proof.
  intro H. apply rs_ctor_p2e in H as (_ & _ & _ & Hp & Ha & _ & _ & Hc).
  split; intro; [assumption|]. rewrite Hc. destruct ad; [congruence | reflexivity].
Qed.

Lemma rs_no_repeat pts dl sz rt s es :
  NoDup pts -> rs_ctor C M meqb ms pts dl false None sz rt = Ok s ->
  NoDup (suggested (snd (rs_run s es))) /\ ms_fresh pts (suggested (snd (rs_run s es))).
Proof.
  intros Hnd Hc. pose proof (rs_inv_run pts es s [] (rs_inv_ctor pts dl sz rt s Hnd Hc)) as I.
  simpl in I. destruct I. auto.
Qed.

Lemma rs_none_exhausted_or_retries (space : list M) pts dl rt s es ds s2 ds' :
  NoDup space -> (forall c, In (ms c) space) -> NoDup pts ->
  rs_ctor C M meqb ms pts dl false None (Some (length space)) rt = Ok s ->
  rs_get_config (fst (rs_run s es)) ds = Ok (s2, None, ds') ->
  let outs := suggested (snd (rs_run s es)) in
  (forall m, In m space -> In m (map ms outs)) \/
  (exists pre, ds = map DCfg pre ++ ds' /\ length pre = rt /\ forall c, In c pre -> In (ms c) (map ms outs)).
Proof.
  intros Hsp Hall Hnd Hc Hg outs.
  pose proof (rs_inv_run pts es s [] (rs_inv_ctor pts dl _ rt s Hnd Hc)) as I. simpl in I.
  pose proof (rs_ctor_wf _ _ _ _ _ _ Hc) as W.
  pose proof (rs_ctor_p2e _ _ _ _ _ _ Hc) as (_ & _ & Hr & _ & _ & Hsz & Hrt & _).
  destruct (rs_run_static es s Hr W) as [S1 S2].
  destruct I as [_ Irc Iex Iex2 Ind _ _ _ _ _].
  destruct (rs_none_reason _ _ _ _ Irc Hg) as [_ [He|(pre & E1 & E2 & E3)]].
  - left. intros m Hm. apply Iex2. rewrite S1, Hsz in He.
    apply (exhausted_all space _ Ind); [|assumption|assumption].
    intros x Hx. apply Iex2 in Hx. apply in_map_iff in Hx as (c & <- & _). apply Hall.
  - right. exists pre. repeat split; [assumption | congruence |]. intros c Hc'. apply Iex2. auto.
Qed.

Lemma gs_grid_once {Seed} base (shuffle : Seed -> list C -> list C) pts seed sh es :
  let s := gs_ctor C M base shuffle pts seed sh false in
  let grid := if sh then shuffle seed base else base in
  let ok := grid_ok (fold_left excl_add pts []) in
  snd (gs_run s es) =
    firstn (count_gets es) (map Some (pts ++ filter ok grid) ++ repeat None (count_gets es)) /\
  (forall g, In g (filter ok grid) <-> In g grid /\ ~ In (ms g) (map ms pts)) /\
  (NoDup pts -> NoDup grid -> NoDup (pts ++ filter ok grid)).
Proof.
  intros s grid ok. split; [|split].
  - apply (gs_outputs es s grid); reflexivity.
  - intro g. unfold ok. rewrite filter_In, grid_ok_fold. tauto.
  - apply grid_sequence_NoDup.
Qed.

Lemma rs_clone_bisimilar pts dl ad rc sz rt s hist :
  rs_ctor C M meqb ms pts dl ad rc sz rt = Ok s ->
  let s1 := fst (rs_run s hist) in
  rs_clone C M meqb ms s1 (rs_get_state C M s1) = Ok s1.
Proof.
  intros Hc s1. apply rs_clone_identity. apply rs_run_wf2. eapply rs_ctor_wf2; eauto.
Qed.

Lemma gs_clone_bisimilar {Seed} base (shuffle : Seed -> list C -> list C) dseed dpts (s1 : gs_state) cont :
  gs_clone C M base shuffle dseed dpts s1 (gs_get_state C M s1) = s1 /\
  snd (gs_run (gs_clone C M base shuffle dseed dpts s1 (gs_get_state C M s1)) cont) = snd (gs_run s1 cont).
Proof.
  assert (E : gs_clone C M base shuffle dseed dpts s1 (gs_get_state C M s1) = s1) by apply gs_clone_identity.
  split; [assumption | rewrite E; reflexivity].
Qed.

(* GP searcher: original and clone agree on every get_config that does not consult the
   internal random searcher (initial points, model-based decisions), and stay equal up to it *)
Definition mb_eqv (s s' : mb_state C M) : Prop :=
  exists r', s' = mb_with C M s (mb_p2e _ _ s) (mb_tj _ _ s) r'.

Lemma mb_get_config_eqv (s s' : mb_state C M) ds cands opt :
  mb_eqv s s' ->
  (mb_p2e _ _ s <> [] \/ mb_pick_random C M s (tj_excl C M meqb ms (mb_tj _ _ s) false) = false) ->
  exists s1 s1' c ds',
    mb_get_config C M meqb ms s ds cands opt = Ok (s1, c, ds') /\
    mb_get_config C M meqb ms s' ds cands opt = Ok (s1', c, ds') /\ mb_eqv s1 s1'.
Proof.
  intros [r' ->] H. unfold mb_get_config. simpl.
  destruct (mb_p2e C M s) as [|c p] eqn:Ep.
  - destruct H as [H|H]; [congruence|].
    unfold mb_pick_random in *. simpl. rewrite H.
    destruct (mb_allow_dup C M s || negb (excl_exhausted M (mb_size C M s) (tj_excl C M meqb ms (mb_tj C M s) false)));
      do 4 eexists; (split; [reflexivity|split; [reflexivity|]]); eexists; unfold mb_with; simpl; reflexivity.
  - do 4 eexists. split; [reflexivity|split; [reflexivity|]]. eexists; unfold mb_with; simpl; reflexivity.
Qed.

Lemma mb_clone_eqv (s : mb_state C M) : mb_eqv s (mb_clone C M s (mb_get_state C M s)).
Proof. exists None. reflexivity. Qed.

Lemma mb_clone_fresh (s : mb_state C M) : mb_rs _ _ s = None -> mb_clone C M s (mb_get_state C M s) = s.
Proof. intro H. destruct s; simpl in *; subst; reflexivity. Qed.


(* ---------------- C06: get_batch_configs (FIFO GP searcher) ------------------------------ *)
Ltac batch_triv :=
  exists [], []; simpl; rewrite ?app_nil_r;
  split; [reflexivity|]; split; [reflexivity|]; split; [constructor|];
  split; [intros c0 []|]; split; [intro m0; tauto | reflexivity].

Lemma mb_batch_loop_spec fuel : forall (s : mb_state C M) e ds acc s' e' acc' pr ds',
  mb_batch_loop C M meqb ms fuel s e ds acc = Ok (s', e', acc', pr, ds') ->
  exists I R, acc' = acc ++ I ++ R /\ I = firstn (length I) (mb_p2e _ _ s) /\
    NoDup (map ms R) /\
    (forall c, In c R -> ~ In (ms c) e /\ ~ In (ms c) (map ms I)) /\
    (forall m, In m e' <-> In m e \/ In m (map ms (I ++ R))) /\
    mb_size _ _ s' = mb_size _ _ s.
Proof.
  induction fuel as [|f IH]; intros s e ds acc s' e' acc' pr ds' H; simpl in H.
  - injection H as <- <- <- _ _. batch_triv.
  - unfold mb_not_modelbased in H. destruct (mb_p2e C M s) as [|c rest] eqn:Ep.
    + destruct (mb_pick_random C M s e).
      * destruct (mb_random_loop C M meqb ms (mb_outer C M s)
                    (match mb_rs C M s with Some r => r | None => mb_fresh_rs C M s end) e ds)
          as [[[r' oc] ds1]|x] eqn:El; [|discriminate].
        destruct oc as [c|].
        -- apply mb_random_loop_not_excluded in El.
           destruct (IH _ _ _ _ _ _ _ _ _ H) as (I1 & R1 & Hacc & HI & Hnd & Hmem & He & Hsz).
           simpl in HI. rewrite firstn_nil in HI. subst I1. simpl in *.
           exists [], (c :: R1). simpl.
           split; [rewrite Hacc, <- app_assoc; reflexivity|]. split; [reflexivity|].
           split.
           { constructor; [|assumption]. intro Hin. apply in_map_iff in Hin as (c' & Hm & Hc').
             destruct (Hmem c' Hc') as [Hn _]. apply Hn. apply excl_add_In. left. assumption. }
           split.
           { intros c0 [<-|Hc']; [split; [assumption | intros []]|].
             destruct (Hmem c0 Hc') as [Hn _]. split; [|intros []].
             intro Hin. apply Hn. apply excl_add_In. right. assumption. }
           split; [|exact Hsz].
           intro m. rewrite He, excl_add_In. simpl. intuition (try subst; auto).
        -- injection H as <- <- <- _ _. batch_triv.
      * injection H as <- <- <- _ _. batch_triv.
    + destruct (IH _ _ _ _ _ _ _ _ _ H) as (I1 & R1 & Hacc & HI & Hnd & Hmem & He & Hsz). simpl in HI, Hsz.
      exists (c :: I1), R1.
      split; [rewrite Hacc, <- app_assoc; reflexivity|].
      split; [simpl; rewrite <- HI; reflexivity|]. split; [assumption|].
      split.
      { intros c0 Hc0. destruct (Hmem c0 Hc0) as [Hn Hn2]. split.
        - intro Hin. apply Hn. apply excl_add_In. right. assumption.
        - simpl. intros [Hm|Hm]; [|contradiction]. apply Hn. apply excl_add_In. left. symmetry. assumption. }
      split; [|exact Hsz].
      intro m. rewrite He, excl_add_In. simpl. intuition (try subst; auto).
Qed.

Lemma mb_get_batch_spec (s s' : mb_state C M) n ds oracles batch :
  mb_get_batch C M meqb ms s n ds oracles = Ok (s', batch) ->
  exists I R, batch = I ++ R /\ I = firstn (length I) (mb_p2e _ _ s) /\
    NoDup (map ms R) /\
    forall c, In c R -> ~ In (ms c) (tj_excl C M meqb ms (mb_tj _ _ s) (mb_allow_dup _ _ s)) /\ ~ In (ms c) (map ms I).
Proof.
  unfold mb_get_batch. intro H.
  destruct (mb_batch_loop C M meqb ms n s (tj_excl C M meqb ms (mb_tj C M s) (mb_allow_dup C M s)) ds [])
    as [[[[[s1 e1] acc] pr] ds1]|x] eqn:El; [|discriminate].
  destruct (mb_batch_loop_spec _ _ _ _ _ _ _ _ _ _ El) as (I & R & Hacc & HI & Hnd & Hmem & He & Hsz).
  simpl in Hacc. destruct pr.
  - injection H as _ <-. exists I, R. auto.
  - injection H as _ <-.
    destruct (bo_batch_fresh (mb_size C M s) (n - length acc) e1 oracles) as [Bnd Bex].
    exists I, (R ++ bo_batch C M meqb ms (mb_size C M s) (n - length acc) e1 oracles).
    split; [rewrite Hacc, app_assoc; reflexivity|]. split; [assumption|]. split.
    + rewrite map_app. apply NoDup_app_disjoint; auto.
      intros m Hm Hb. apply in_map_iff in Hb as (c & <- & Hc). apply (Bex c Hc). apply He. right.
      rewrite map_app. apply in_or_app. right. assumption.
    + intros c Hc. apply in_app_or in Hc as [Hc|Hc]; [auto|].
      pose proof (Bex c Hc) as Hn. split; intro Hin; apply Hn; apply He.
      * left. assumption.
      * right. rewrite map_app. apply in_or_app. left. assumption.
Qed.

(* ---------------- C06: initial points first (GP searcher) -------------------------------- *)
Lemma mb_initial_first es : forall (s : mb_state C M),
  mb_new_ids s es ->
  firstn (length (mb_p2e _ _ s)) (snd (mb_run C M meqb ms s es)) =
  map ok_some (firstn (length (snd (mb_run C M meqb ms s es))) (mb_p2e _ _ s)).
Proof.
  induction es as [|e r IH]; intros s Hids; simpl.
  - rewrite firstn_nil. reflexivity.
  - destruct Hids as [Hid Hrest].
    destruct e as [t ds cands opt|t c|t|t].
    + simpl in Hrest |- *. destruct (mb_p2e C M s) as [|c rest] eqn:Ep; [simpl; rewrite firstn_nil; reflexivity|].
      assert (Eg : mb_get_config C M meqb ms s ds cands opt =
                   Ok (mb_with C M s rest (mb_tj C M s)
                         (Some (match mb_rs C M s with Some r0 => r0 | None => mb_fresh_rs C M s end)), Some c, ds)).
      { unfold mb_get_config. rewrite Ep. reflexivity. }
      rewrite Eg in Hrest |- *. destruct Hid as (Hl & Hp & Ho).
      unfold mb_register_pending in Hrest |- *. simpl in Hrest |- *.
      destruct (mem_Z t (tj_pending C (mb_tj C M s))) eqn:Emp; [apply mem_Z_In in Emp; contradiction|].
      destruct (mem_Z t (tj_obs C (mb_tj C M s))) eqn:Emo; [apply mem_Z_In in Emo; contradiction|].
      simpl in Hrest |- *.
      match type of Hrest with mb_new_ids ?s1 _ => specialize (IH s1 Hrest); destruct (mb_run C M meqb ms s1 r) as [s2 o2] end.
      simpl in IH |- *. rewrite IH. reflexivity.
    + simpl in Hrest |- *. specialize (IH _ Hrest). simpl in IH.
      destruct (mb_run C M meqb ms (mb_update C M s t c) r) as [s2 o2]. simpl in *. exact IH.
    + simpl in Hrest |- *. specialize (IH _ Hrest).
      assert (Ep : mb_p2e _ _ (mb_update_nonfinite C M s t) = mb_p2e _ _ s).
      { unfold mb_update_nonfinite. destruct (lookupZ t (tj_cfg C (mb_tj C M s))); reflexivity. }
      rewrite Ep in IH. destruct (mb_run C M meqb ms (mb_update_nonfinite C M s t) r) as [s2 o2]. simpl in *. exact IH.
    + simpl in Hrest |- *. specialize (IH _ Hrest). simpl in IH.
      destruct (mb_run C M meqb ms (mb_evaluation_failed C M s t) r) as [s2 o2]. simpl in *. exact IH.
Qed.

(* ---------------- C06 / C16: the grid exactly once across a restore ----------------------- *)
Lemma gs_run_app es1 : forall (s : gs_state) es2,
  snd (gs_run s (es1 ++ es2)) = snd (gs_run s es1) ++ snd (gs_run (fst (gs_run s es1)) es2).
Proof.
  induction es1 as [|e r IH]; intros s es2; simpl.
  - destruct (gs_run s es2); reflexivity.
  - destruct (gs_step C M meqb ms s e) as [s1 o1]. specialize (IH s1 es2).
    destruct (gs_run s1 (r ++ es2)) as [sa oa]. destruct (gs_run s1 r) as [sb ob]. simpl in *.
    rewrite IH, app_assoc. reflexivity.
Qed.

(* ---------------- C16: GP clone, allow_duplicates = True: full bisimulation -------------
   With allow_duplicates the internal random searcher never changes (it excludes nothing and
   registers nothing), so dropping it in clone_from_state is unobservable. *)
Definition mb_norm (s : mb_state C M) : mb_state C M := mb_with C M s (mb_p2e _ _ s) (mb_tj _ _ s) None.
Definition mb_rs_fresh (s : mb_state C M) : Prop :=
  mb_rs _ _ s = None \/ mb_rs _ _ s = Some (mb_fresh_rs C M s).

Lemma rs_fresh_get_config (a : mb_state C M) ds r' c ds' :
  mb_allow_dup _ _ a = true ->
  rs_get_config (mb_fresh_rs C M a) ds = Ok (r', c, ds') -> r' = mb_fresh_rs C M a.
Proof.
  intros Had H.
  pose proof (rs_get_random (mb_fresh_rs C M a) ds eq_refl eq_refl) as G.
  destruct (sample_random C M meqb ms (rs_retries C M (mb_fresh_rs C M a)) (rs_size C M (mb_fresh_rs C M a))
              (rs_excl C M (mb_fresh_rs C M a)) ds) as [[c1 ds1]|x]; rewrite G in H; [|discriminate].
  injection H as <- _ _. unfold mb_fresh_rs, rs_with. simpl. rewrite Had. destruct c1; reflexivity.
Qed.

Lemma mb_random_loop_fresh (a : mb_state C M) e n : forall ds r' c ds',
  mb_allow_dup _ _ a = true ->
  mb_random_loop C M meqb ms n (mb_fresh_rs C M a) e ds = Ok (r', c, ds') -> r' = mb_fresh_rs C M a.
Proof.
  induction n as [|n IH]; intros ds r' c ds' Had H; simpl in H.
  - injection H as <- _ _. reflexivity.
  - destruct (rs_get_config (mb_fresh_rs C M a) ds) as [[[r1 c1] ds1]|x] eqn:Eg; [|discriminate].
    apply rs_fresh_get_config in Eg; [|assumption]. subst r1.
    destruct c1 as [c1|]; [|injection H as <- _ _; reflexivity].
    destruct (excl_contains e c1); [eapply IH; eauto | injection H as <- _ _; reflexivity].
Qed.

Lemma mb_get_config_norm (a : mb_state C M) ds cands opt :
  mb_rs_fresh a -> mb_get_config C M meqb ms a ds cands opt = mb_get_config C M meqb ms (mb_norm a) ds cands opt.
Proof.
  intros J. unfold mb_get_config. simpl.
  replace (match mb_rs C M a with Some r => r | None => mb_fresh_rs C M a end) with (mb_fresh_rs C M a)
    by (destruct J as [-> | ->]; reflexivity).
  reflexivity.
Qed.

Lemma mb_get_config_keeps_fresh (a s' : mb_state C M) ds cands opt c ds' :
  mb_allow_dup _ _ a = true -> mb_rs_fresh a ->
  mb_get_config C M meqb ms a ds cands opt = Ok (s', c, ds') -> mb_rs_fresh s'.
Proof.
  intros Had J. unfold mb_get_config.
  replace (match mb_rs C M a with Some r => r | None => mb_fresh_rs C M a end) with (mb_fresh_rs C M a)
    by (destruct J as [-> | ->]; reflexivity).
  destruct (mb_p2e C M a) as [|c0 rest].
  - destruct (mb_pick_random C M a (tj_excl C M meqb ms (mb_tj C M a) false)).
    + destruct (mb_random_loop C M meqb ms (mb_outer C M a) (mb_fresh_rs C M a)
                  (tj_excl C M meqb ms (mb_tj C M a) false) ds) as [[[r' c'] ds'']|x] eqn:El; [|discriminate].
      apply mb_random_loop_fresh in El; [|assumption]. subst r'.
      intro H. injection H as <- _ _. right. reflexivity.
    + destruct (mb_allow_dup C M a || negb (excl_exhausted M (mb_size C M a) (tj_excl C M meqb ms (mb_tj C M a) false)));
        intro H; injection H as <- _ _; right; reflexivity.
  - intro H. injection H as <- _ _. right. reflexivity.
Qed.

Definition mb_rel (a b : mb_state C M) : Prop :=
  mb_norm a = mb_norm b /\ mb_rs_fresh a /\ mb_rs_fresh b /\ mb_allow_dup _ _ a = true.

Lemma mb_norm_allow_dup (a b : mb_state C M) : mb_norm a = mb_norm b -> mb_allow_dup _ _ a = mb_allow_dup _ _ b.
Proof. intro H. apply (f_equal (mb_allow_dup C M)) in H. exact H. Qed.

Lemma mb_rel_step a b e : mb_rel a b ->
  snd (mb_step C M meqb ms a e) = snd (mb_step C M meqb ms b e) /\
  mb_rel (fst (mb_step C M meqb ms a e)) (fst (mb_step C M meqb ms b e)).
Proof.
  intros (Hn & Ja & Jb & Had).
  assert (Hadb : mb_allow_dup _ _ b = true) by (rewrite <- (mb_norm_allow_dup a b Hn); exact Had).
  destruct e as [t ds cands opt|t c|t|t].
  - (* suggest: identical results *)
    simpl. rewrite (mb_get_config_norm a ds cands opt Ja), (mb_get_config_norm b ds cands opt Jb), Hn.
    pose proof (mb_get_config_norm b ds cands opt Jb) as Eb.
    destruct (mb_get_config C M meqb ms (mb_norm b) ds cands opt) as [[[s' oc] ds']|x] eqn:Eg; simpl.
    + assert (Js : mb_rs_fresh s') by (eapply (mb_get_config_keeps_fresh b); eauto).
      assert (As : mb_allow_dup _ _ s' = true).
      { destruct (mb_get_config_shape _ _ _ _ _ _ _ Eb) as (_ & E & _). rewrite E. exact Hadb. }
      destruct oc as [c|]; simpl.
      * unfold mb_register_pending.
        destruct (mem_Z t (tj_pending C (mb_tj C M s'))); [split; [reflexivity | repeat split; auto]|].
        destruct (mem_Z t (tj_obs C (mb_tj C M s'))); [split; [reflexivity | repeat split; auto]|].
        simpl. split; [reflexivity|]. repeat split; auto.
      * split; [reflexivity | repeat split; auto].
    + split; [reflexivity | repeat split; auto].
  - simpl. split; [reflexivity|].
    destruct a as [pa ta ra na da sa rta oa], b as [pb tb rb nb db sb rtb ob].
    unfold mb_rel, mb_update, mb_norm, mb_rs_fresh, mb_fresh_rs, mb_with in *. simpl in *.
    injection Hn as -> -> -> -> -> -> ->. repeat split; auto.
  - simpl. split; [reflexivity|].
    destruct a as [pa ta ra na da sa rta oa], b as [pb tb rb nb db sb rtb ob].
    unfold mb_rel, mb_update_nonfinite, mb_norm, mb_rs_fresh, mb_fresh_rs, mb_with in *. simpl in *.
    injection Hn as -> -> -> -> -> -> ->.
    destruct (lookupZ t (tj_cfg C tb)); simpl; repeat split; auto.
  - simpl. split; [reflexivity|].
    destruct a as [pa ta ra na da sa rta oa], b as [pb tb rb nb db sb rtb ob].
    unfold mb_rel, mb_evaluation_failed, mb_norm, mb_rs_fresh, mb_fresh_rs, mb_with in *. simpl in *.
    injection Hn as -> -> -> -> -> -> ->. repeat split; auto.
Qed.

Lemma mb_rel_run es : forall a b, mb_rel a b ->
  snd (mb_run C M meqb ms a es) = snd (mb_run C M meqb ms b es) /\
  mb_rel (fst (mb_run C M meqb ms a es)) (fst (mb_run C M meqb ms b es)).
Proof.
  induction es as [|e r IH]; intros a b R; simpl; [auto|].
  destruct (mb_rel_step a b e R) as [Ho R1].
  destruct (mb_step C M meqb ms a e) as [a1 oa]. destruct (mb_step C M meqb ms b e) as [b1 ob]. simpl in *.
  destruct (IH a1 b1 R1) as [Ho2 R2].
  destruct (mb_run C M meqb ms a1 r) as [a2 oa2]. destruct (mb_run C M meqb ms b1 r) as [b2 ob2]. simpl in *.
  split; [congruence | assumption].
Qed.

Lemma mb_clone_bisimilar_allow_dup pts num_init sz rt outer hist cont :
  let s1 := fst (mb_run C M meqb ms (mb_ctor C M pts num_init true sz rt outer) hist) in
  snd (mb_run C M meqb ms (mb_clone C M s1 (mb_get_state C M s1)) cont) = snd (mb_run C M meqb ms s1 cont).
Proof.
  intros s1.
  assert (R0 : mb_rel (mb_ctor C M pts num_init true sz rt outer) (mb_ctor C M pts num_init true sz rt outer)).
  { repeat split; try (left; reflexivity). }
  destruct (mb_rel_run hist _ _ R0) as [_ (_ & J1 & _ & A1)]. fold s1 in J1, A1.
  assert (R1 : mb_rel (mb_clone C M s1 (mb_get_state C M s1)) s1).
  { repeat split; auto. left. reflexivity. }
  exact (proj1 (mb_rel_run cont _ _ R1)).
Qed.

End Proofs.

(* ---------------- C06: keys, constants, casting (scheduler layer) ------ *)
Section PostprocessProofs.
Variable K V D : Type.
Variable keqb : K -> K -> bool.
Variable cast : D -> V -> V.
Hypothesis keqb_eq : forall a b, keqb a b = true <-> a = b.

Notation lookupK := (lookupK K keqb).
Notation cast_config_values := (cast_config_values K V D keqb cast).
Notation postprocess_config := (postprocess_config K V D keqb cast).

Lemma keqb_refl k : keqb k k = true.
Proof. apply keqb_eq. reflexivity. Qed.

Lemma keqb_neq a b : a <> b -> keqb a b = false.
Proof. intro H. destruct (keqb a b) eqn:E; [apply keqb_eq in E; contradiction | reflexivity]. Qed.

Lemma lookupK_notin {A} k (l : list (K * A)) : ~ In k (map fst l) -> lookupK k l = None.
Proof.
  induction l as [|[k' v] r IH]; simpl; intro H; [reflexivity|].
  rewrite keqb_neq; [apply IH; tauto | intro E; apply H; auto].
Qed.

Lemma lookupK_In_NoDup {A} k (v : A) l : NoDup (map fst l) -> In (k, v) l -> lookupK k l = Some v.
Proof.
  induction l as [|[k' v'] r IH]; simpl; intros Hnd Hin; [destruct Hin|].
  inversion Hnd as [|? ? Hk Hr]; subst. destruct Hin as [E|Hin].
  - injection E as -> ->. rewrite keqb_refl. reflexivity.
  - rewrite keqb_neq; [apply IH; assumption|]. intros ->. apply Hk. apply (in_map fst) in Hin. exact Hin.
Qed.

Definition cast_entry (e : entry V D) (v : V) : V := match e with EDom d => cast d v | EConst _ => v end.

Lemma cast_keys cfg space k : In k (map fst (cast_config_values cfg space)) -> In k (map fst space).
Proof.
  induction space as [|[k' e] r IH]; simpl; [auto|]. unfold Searcher.cast_config_values in *. simpl.
  destruct (lookupK k' cfg); simpl; intros H; [destruct H as [H|H]; auto | auto].
Qed.

Lemma lookupK_cast cfg space k e :
  NoDup (map fst space) -> In (k, e) space ->
  lookupK k (cast_config_values cfg space) = option_map (cast_entry e) (lookupK k cfg).
Proof.
  induction space as [|[k' e'] r IH]; simpl; intros Hnd Hin; [destruct Hin|].
  inversion Hnd as [|? ? Hk Hr]; subst. unfold Searcher.cast_config_values. simpl.
  fold (cast_config_values cfg r). destruct Hin as [E|Hin].
  - injection E as -> ->. destruct (lookupK k cfg) as [v|]; simpl.
    + rewrite keqb_refl. reflexivity.
    + apply lookupK_notin. intro H. apply Hk. eapply cast_keys; eauto.
  - assert (Hne : k <> k') by (intros ->; apply Hk; apply (in_map fst) in Hin; exact Hin).
    destruct (lookupK k' cfg) as [v|]; simpl; [rewrite (keqb_neq _ _ Hne)|]; apply IH; assumption.
Qed.

Lemma postprocess_keys cfg space : map fst (postprocess_config cfg space) = map fst space.
Proof. unfold Searcher.postprocess_config. rewrite map_map. reflexivity. Qed.

Lemma postprocess_lookup cfg space k e :
  NoDup (map fst space) -> In (k, e) space ->
  lookupK k (postprocess_config cfg space) =
  Some (match lookupK k cfg with
        | Some v => OVal (cast_entry e v)
        | None => match e with EDom d => ODomObj d | EConst v => OVal v end
        end).
Proof.
  intros Hnd Hin.
  erewrite (lookupK_In_NoDup k); [reflexivity | rewrite postprocess_keys; assumption |].
  unfold Searcher.postprocess_config. apply in_map_iff. exists (k, e). split; [|assumption]. simpl.
  fold (cast_config_values cfg space). rewrite (lookupK_cast cfg space k e Hnd Hin).
  destruct (lookupK k cfg); reflexivity.
Qed.
Lemma lookupK_with_milestone (cfg : list (K * V)) mra m k :
  lookupK k (with_milestone K V keqb cfg mra m) = if keqb k mra then Some m else lookupK k cfg.
Proof.
  unfold with_milestone. simpl. destruct (keqb k mra) eqn:E; [reflexivity|].
  induction cfg as [|[k' v] r IH]; simpl; [reflexivity|].
  destruct (keqb k' mra) eqn:E'; simpl.
  - apply keqb_eq in E'. subst k'. rewrite E. exact IH.
  - destruct (keqb k k'); [reflexivity | exact IH].
Qed.

(* suggest post-processes every suggestion that carries a configuration, new or resumed *)
Lemma ts_suggest_config space (g : suggestion K V) cfg :
  sg_config K V g = Some cfg ->
  exists o, ts_suggest K V D keqb cast space (Some g) = Some o /\
            so_config K V D o = Some (postprocess_config cfg space) /\
            so_spawn_new K V D o = sg_spawn_new K V g /\ so_checkpoint K V D o = sg_checkpoint K V g.
Proof. intro H. eexists. split; [reflexivity|]. simpl. rewrite H. auto. Qed.
End PostprocessProofs.

(* ---------------- itertools.product ------------------------------------ *)
Lemma cart_In {V} (ls : list (list V)) : forall x,
  In x (cart ls) <-> Forall2 (fun v l => In v l) x ls.
Proof.
  induction ls as [|l r IH]; intros x; simpl.
  - split; [intros [<-|[]]; constructor | intro H; inversion H; auto].
  - rewrite in_flat_map. split.
    + intros (v & Hv & Hx). apply in_map_iff in Hx as (y & <- & Hy). constructor; [assumption|]. apply IH, Hy.
    + intro H. inversion H as [|v ? y ? Hv Hy]; subst. exists v. split; [assumption|].
      apply in_map. apply IH. assumption.
Qed.


Lemma cart_NoDup {V} (ls : list (list V)) : Forall (@NoDup V) ls -> NoDup (cart ls).
Proof.
  induction ls as [|l r IH]; intro H; simpl.
  - constructor; [intros []|constructor].
  - inversion H as [|? ? Hl Hr]; subst. specialize (IH Hr). clear H Hr.
    induction l as [|v l IHl]; simpl; [constructor|].
    inversion Hl as [|? ? Hv Hl']; subst.
    apply NoDup_app_disjoint.
    + apply FinFun.Injective_map_NoDup; [intros a b E; injection E; auto | assumption].
    + apply IHl. assumption.
    + intros x Hx Hy. apply in_map_iff in Hx as (y & <- & _).
      apply in_flat_map in Hy as (v' & Hv' & Hy). apply in_map_iff in Hy as (z & E & _).
      injection E as -> _. contradiction.
Qed.
