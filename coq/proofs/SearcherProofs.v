(* SearcherProofs.v — lemmas about model/Searcher.v (C06, C16). *)
From Verif Require Import model.Base model.Searcher.
From Coq Require Import Permutation.

Section Proofs.
Variable C : Type.
Variable M : Type.
Variable ceqb : C -> C -> bool.
Variable meqb : M -> M -> bool.
Variable ms : C -> M.
Hypothesis ceqb_eq : forall a b, ceqb a b = true <-> a = b.
Hypothesis meqb_eq : forall a b, meqb a b = true <-> a = b.

Notation excl_contains := (excl_contains C M meqb ms).
Notation excl_add := (excl_add C M meqb ms).
Notation rs_state := (rs_state C M).
Notation rs_get_config := (rs_get_config C M meqb ms).
Notation rs_step := (rs_step C M meqb ms).
Notation rs_run := (rs_run C M meqb ms).
Notation suggested := (suggested C).

(* ---------------- membership ------------------------------------------ *)
Lemma memb_In {A} (eqb : A -> A -> bool) (H : forall a b, eqb a b = true <-> a = b) x l :
  memb eqb x l = true <-> In x l.
Proof.
  induction l as [|y r IH]; simpl; [split; [discriminate | tauto]|].
  rewrite orb_true_iff, IH, H. split; intros [E|E]; auto.
Qed.

Lemma memb_notIn {A} (eqb : A -> A -> bool) (H : forall a b, eqb a b = true <-> a = b) x l :
  memb eqb x l = false <-> ~ In x l.
Proof.
  rewrite <- (memb_In eqb H). destruct (memb eqb x l); split; intro; try congruence; try tauto.
Qed.

Lemma contains_In e c : excl_contains e c = true <-> In (ms c) e.
Proof. apply memb_In, meqb_eq. Qed.
Lemma contains_notIn e c : excl_contains e c = false <-> ~ In (ms c) e.
Proof. apply memb_notIn, meqb_eq. Qed.

Lemma excl_add_In e c m : In m (excl_add e c) <-> m = ms c \/ In m e.
Proof.
  unfold Searcher.excl_add. destruct (excl_contains e c) eqn:E.
  - apply contains_In in E. split; [auto|]. intros [->|H]; auto.
  - simpl. split; intros [H|H]; auto.
Qed.

Lemma excl_add_NoDup e c : NoDup e -> NoDup (excl_add e c).
Proof.
  intro H. unfold Searcher.excl_add. destruct (excl_contains e c) eqn:E; [assumption|].
  constructor; [apply contains_notIn; assumption | assumption].
Qed.

Lemma fold_add_In l : forall e m,
  In m (fold_left excl_add l e) <-> In m e \/ In m (map ms l).
Proof.
  induction l as [|c r IH]; intros e m; simpl; [tauto|].
  rewrite IH, excl_add_In. split; intros H; intuition.
Qed.

(* ---------------- dedup ------------------------------------------------ *)
Lemma dedup_In l : forall seen x, In x (dedup C ceqb seen l) <-> In x l /\ ~ In x seen.
Proof.
  induction l as [|c r IH]; intros seen x; simpl; [tauto|].
  destruct (memb ceqb c seen) eqn:E.
  - apply (memb_In ceqb ceqb_eq) in E. rewrite IH. split.
    + intros [H1 H2]; auto.
    + intros [[->|H1] H2]; [contradiction | auto].
  - apply (memb_notIn ceqb ceqb_eq) in E. simpl. rewrite IH. simpl. split.
    + intros [->|[H1 H2]]; [auto | split; [auto | intro; apply H2; auto]].
    + intros [[->|H1] H2]; [auto|].
      destruct (ceqb c x) eqn:Ex; [apply ceqb_eq in Ex; auto|].
      right. split; [assumption|]. intros [->|H3]; [|contradiction].
      assert (ceqb x x = true) by (apply ceqb_eq; reflexivity). congruence.
Qed.

Lemma dedup_NoDup l : forall seen, NoDup (dedup C ceqb seen l).
Proof.
  induction l as [|c r IH]; intros seen; simpl; [constructor|].
  destruct (memb ceqb c seen) eqn:E; [apply IH|].
  constructor; [|apply IH]. rewrite dedup_In. simpl. intros [_ H]. apply H. auto.
Qed.

(* dedup keeps exactly the first occurrences, in order *)
Lemma dedup_first_occurrences l : forall seen,
  dedup C ceqb seen l =
  (fix go (seen : list C) (l : list C) :=
     match l with
     | [] => []
     | c :: r => if memb ceqb c seen then go seen r else c :: go (c :: seen) r
     end) seen l.
Proof. induction l; intros; reflexivity. Qed.

Lemma impute_points_NoDup {P} (imp : P -> C) dflt pts : NoDup (impute_points C ceqb imp dflt pts).
Proof. apply dedup_NoDup. Qed.

Lemma impute_points_In {P} (imp : P -> C) dflt pts x :
  In x (impute_points C ceqb imp dflt pts) <->
  In x (map imp (match pts with None => [dflt] | Some l => l end)).
Proof. unfold impute_points. rewrite dedup_In. simpl. tauto. Qed.

(* ---------------- sample_random_configuration ------------------------- *)
Lemma sample_loop_some n e : forall ds c ds',
  sample_loop C M meqb ms n e ds = Ok (Some c, ds') -> ~ In (ms c) e.
Proof.
  induction n as [|n IH]; intros ds c ds' H; simpl in H; [discriminate|].
  destruct ds as [|[d|p] ds0]; try discriminate.
  destruct (excl_contains e d) eqn:E.
  - eapply IH; eauto.
  - injection H as -> _. apply contains_notIn. assumption.
Qed.

Lemma sample_loop_none n e : forall ds ds',
  sample_loop C M meqb ms n e ds = Ok (None, ds') ->
  exists pre, ds = map DCfg pre ++ ds' /\ length pre = n /\ forall c, In c pre -> In (ms c) e.
Proof.
  induction n as [|n IH]; intros ds ds' H; simpl in H.
  - injection H as ->. exists []. simpl. repeat split; auto. intros c [].
  - destruct ds as [|[d|p] ds0]; try discriminate.
    destruct (excl_contains e d) eqn:E; [|discriminate].
    destruct (IH _ _ H) as (pre & -> & Hl & Hin). exists (d :: pre). simpl. repeat split; auto.
    intros c [<-|Hc]; [apply contains_In; assumption | auto].
Qed.

Lemma sample_random_some r sz e ds c ds' :
  sample_random C M meqb ms r sz e ds = Ok (Some c, ds') -> ~ In (ms c) e.
Proof.
  unfold sample_random. destruct (excl_exhausted M sz e); [discriminate|]. apply sample_loop_some.
Qed.

Lemma sample_random_none r sz e ds ds' :
  sample_random C M meqb ms r sz e ds = Ok (None, ds') ->
  excl_exhausted M sz e = true \/
  exists pre, ds = map DCfg pre ++ ds' /\ length pre = r /\ forall c, In c pre -> In (ms c) e.
Proof.
  unfold sample_random. destruct (excl_exhausted M sz e); [auto|]. intro H. right.
  apply sample_loop_none. assumption.
Qed.

(* ---------------- RandomSearcher: get_config cases -------------------- *)
Lemma rs_get_initial (s : rs_state) c r ds :
  rs_p2e _ _ s = c :: r ->
  exists s', rs_get_config s ds = Ok (s', Some c, ds) /\ rs_p2e _ _ s' = r /\
             rs_allow_dup _ _ s' = rs_allow_dup _ _ s /\ rs_debug _ _ s' = rs_debug _ _ s /\
             rs_size _ _ s' = rs_size _ _ s /\ rs_retries _ _ s' = rs_retries _ _ s /\
             rs_cft _ _ s' = rs_cft _ _ s /\
             (rs_restrict _ _ s = None -> rs_restrict _ _ s' = None /\ rs_rcpos _ _ s' = rs_rcpos _ _ s) /\
             (rs_allow_dup _ _ s = false -> rs_excl _ _ s' = excl_add (rs_excl _ _ s) c) /\
             (rs_allow_dup _ _ s = true -> rs_excl _ _ s' = rs_excl _ _ s).
Proof.
  intro Hp. unfold Searcher.rs_get_config. rewrite Hp.
  destruct (rs_allow_dup _ _ s) eqn:Ea.
  - eexists. split; [reflexivity|]. simpl. repeat split; auto; discriminate.
  - destruct (rs_restrict _ _ s) as [rc|] eqn:Er.
    + destruct (rs_rcpos _ _ s) as [[|p ps]|] eqn:Ep;
        (eexists; split; [reflexivity|]; simpl; repeat split; auto; discriminate).
    + eexists. split; [reflexivity|]. simpl. repeat split; auto; discriminate.
Qed.

(* get_config when no initial point is left and restrict_configurations is None *)
Lemma rs_get_random (s : rs_state) ds :
  rs_p2e _ _ s = [] -> rs_restrict _ _ s = None ->
  match sample_random C M meqb ms (rs_retries _ _ s) (rs_size _ _ s) (rs_excl _ _ s) ds with
  | Err x => rs_get_config s ds = Err x
  | Ok (c, ds') =>
      rs_get_config s ds =
      Ok (rs_with C M s [] (match c with
                            | Some c' => if rs_allow_dup _ _ s then rs_excl _ _ s else excl_add (rs_excl _ _ s) c'
                            | None => rs_excl _ _ s end)
                  (rs_cft _ _ s) None (rs_rcpos _ _ s), c, ds')
  end.
Proof.
  intros Hp Hr. unfold Searcher.rs_get_config, rs_random_config. rewrite Hp, Hr.
  destruct (sample_random C M meqb ms (rs_retries C M s) (rs_size C M s) (rs_excl C M s) ds) as [[c ds']|x];
    [|reflexivity].
  destruct c as [c|]; [|reflexivity].
  destruct (rs_allow_dup _ _ s); reflexivity.
Qed.

(* ---------------- C06: initial points first --------------------------- *)
Definition ok_some (c : C) : res (option C) := Ok (Some c).

Lemma rs_step_p2e_other s e : (forall ds, e <> RGet C ds) ->
  rs_p2e _ _ (fst (rs_step s e)) = rs_p2e _ _ s /\ snd (rs_step s e) = [].
Proof.
  intro H. destruct e as [ds|t c|t|t]; simpl.
  - exfalso. eapply H; reflexivity.
  - unfold rs_register_pending. destruct (rs_cft _ _ s); [|auto].
    destruct (rs_allow_dup _ _ s); [|auto]. destruct (lookupZ t l); auto.
  - unfold rs_evaluation_failed. destruct (rs_cft _ _ s); [|auto].
    destruct (rs_allow_dup _ _ s); [|auto]. destruct (lookupZ t l); auto.
  - auto.
Qed.

Lemma rs_initial_first es : forall s,
  firstn (length (rs_p2e _ _ s)) (snd (rs_run s es)) =
  map ok_some (firstn (length (snd (rs_run s es))) (rs_p2e _ _ s)).
Proof.
  induction es as [|e r IH]; intros s; simpl.
  - rewrite firstn_nil. reflexivity.
  - destruct (rs_step s e) as [s1 o1] eqn:E1. destruct (rs_run s1 r) as [s2 o2] eqn:E2. simpl.
    specialize (IH s1). rewrite E2 in IH. simpl in IH.
    destruct e as [ds|t c|t|t].
    + simpl in E1. destruct (rs_p2e _ _ s) as [|c p] eqn:Ep.
      * simpl. rewrite firstn_nil. reflexivity.
      * destruct (rs_get_initial s c p ds Ep) as (s' & Hg & Hp' & _).
        rewrite Hg in E1. injection E1 as <- <-. simpl. rewrite Hp' in IH. rewrite IH. reflexivity.
    + destruct (rs_step_p2e_other s (RPending C t c)) as [H1 H2]; [discriminate|].
      rewrite E1 in H1, H2. simpl in H1, H2. subst o1. simpl. rewrite <- H1. apply IH.
    + destruct (rs_step_p2e_other s (RFailed C t)) as [H1 H2]; [discriminate|].
      rewrite E1 in H1, H2. simpl in H1, H2. subst o1. simpl. rewrite <- H1. apply IH.
    + destruct (rs_step_p2e_other s (RUpdate C t)) as [H1 H2]; [discriminate|].
      rewrite E1 in H1, H2. simpl in H1, H2. subst o1. simpl. rewrite <- H1. apply IH.
Qed.

Lemma rs_ctor_p2e pts dl ad sz rt s :
  rs_ctor C M meqb ms pts dl ad None sz rt = Ok s ->
  rs_p2e _ _ s = pts /\ rs_excl _ _ s = [] /\ rs_restrict _ _ s = None /\ rs_rcpos _ _ s = None /\
  rs_allow_dup _ _ s = ad /\ rs_size _ _ s = sz /\ rs_retries _ _ s = rt /\
  rs_cft _ _ s = (if ad then Some [] else None).
Proof.
  unfold rs_ctor. destruct dl as [b| |]; intro H; try discriminate; injection H as <-; simpl; auto 10.
Qed.

End Proofs.
