(* AcqHeadProofs.v — the hand-derived head gradients of model/AcqHead.v are the
   derivatives of the head VALUES (Coquelicot [is_derive]), for the real-number
   instance [ROps Phi pdf]; value returned with gradient = value returned alone.
   Section hypotheses: Phi' = pdf and pdf' = -u pdf; the second one is PROVED for
   the explicit Gaussian density [gauss_pdf] ([gauss_pdf_derive]), so the
   theorems of props/C09.v only assume Phi' = gauss_pdf. *)
From Coq Require Import Reals Lra List Lia Arith.
From Coquelicot Require Import Coquelicot.
From Verif Require Import model.AcqHead.
Import ListNotations.
Open Scope R_scope.

Lemma sqrt_2PI_pos : 0 < sqrt (2 * PI).
Proof. apply sqrt_lt_R0. generalize PI_RGT_0. lra. Qed.

Lemma gauss_pdf_derive u : is_derive gauss_pdf u (- u * gauss_pdf u).
Proof.
  unfold gauss_pdf. auto_derive; [exact I|].
  generalize sqrt_2PI_pos; intro H. unfold Rdiv. field. lra.
Qed.

Lemma gauss_pdf_pos u : 0 < gauss_pdf u.
Proof. unfold gauss_pdf. apply Rdiv_lt_0_compat; [apply exp_pos | apply sqrt_2PI_pos]. Qed.

Lemma is_derive_eq (f : R -> R) x d d' : is_derive f x d' -> d = d' -> is_derive f x d.
Proof. intros H E; subst; exact H. Qed.

Section L.
Variables Phi pdf : R -> R.
Let O := ROps Phi pdf.

Lemma fold_left_Rplus l a : fold_left Rplus l a = a + fold_right Rplus 0 l.
Proof. revert a; induction l as [|x l IH]; intros a; simpl; [ring|]. rewrite IH. ring. Qed.

Lemma tsum_fr l : tsum O l = fold_right Rplus 0 l.
Proof. unfold tsum; cbn. rewrite fold_left_Rplus. ring. Qed.

Lemma tmean_tab n f : tmean O (tabulate n f) = fold_right Rplus 0 (map f (seq 0 n)) / INR n.
Proof. unfold tmean, tabulate. rewrite tsum_fr, map_length, seq_length. reflexivity. Qed.

Lemma is_derive_sum_idx (idx : list nat) (F : nat -> R -> R) (D : nat -> R) x :
  (forall j, In j idx -> is_derive (F j) x (D j)) ->
  is_derive (fun y => fold_right Rplus 0 (map (fun j => F j y) idx)) x
            (fold_right Rplus 0 (map D idx)).
Proof.
  induction idx as [|i idx IH]; intros H; simpl.
  - apply @is_derive_const.
  - apply @is_derive_plus; [apply H; now left | apply IH; intros j Hj; apply H; now right].
Qed.

Lemma is_derive_tmean n (F : nat -> R -> R) (D : nat -> R) x :
  (forall j, (j < n)%nat -> is_derive (F j) x (D j)) ->
  is_derive (fun y => tmean O (tabulate n (fun j => F j y))) x (tmean O (tabulate n D)).
Proof.
  intros H.
  apply is_derive_ext with (f := fun y => / INR n * fold_right Rplus 0 (map (fun j => F j y) (seq 0 n))).
  { intros t. rewrite tmean_tab. unfold Rdiv. apply Rmult_comm. }
  rewrite tmean_tab. unfold Rdiv. rewrite Rmult_comm.
  apply @is_derive_scal with (k := / INR n).
  apply is_derive_sum_idx. intros j Hj. apply H. apply in_seq in Hj. lia.
Qed.

Lemma sum_opp (f : nat -> R) idx :
  fold_right Rplus 0 (map (fun j => - f j) idx) = - fold_right Rplus 0 (map f idx).
Proof. induction idx as [|i idx IH]; simpl; [ring|]. rewrite IH; ring. Qed.

Lemma tmean_opp n f : - tmean O (tabulate n f) = tmean O (tabulate n (fun j => - f j)).
Proof. rewrite !tmean_tab, sum_opp. unfold Rdiv. ring. Qed.

Lemma sum_indicator (a : R) k n s :
  fold_right Rplus 0 (map (fun j => if Nat.eqb j k then a else 0) (seq s n)) =
  if (Nat.leb s k && Nat.ltb k (s + n))%bool then a else 0.
Proof.
  revert s; induction n as [|n IH]; intros s; simpl.
  - destruct (Nat.leb s k) eqn:E1, (Nat.ltb k (s + 0)) eqn:E2; simpl; try reflexivity.
    apply Nat.leb_le in E1. apply Nat.ltb_lt in E2. lia.
  - rewrite IH. destruct (Nat.eqb s k) eqn:E.
    + apply Nat.eqb_eq in E. subst s.
      replace (Nat.leb (S k) k) with false by (symmetry; apply Nat.leb_gt; lia).
      replace (Nat.leb k k) with true by (symmetry; apply Nat.leb_le; lia).
      replace (Nat.ltb k (k + S n)) with true by (symmetry; apply Nat.ltb_lt; lia).
      simpl. ring.
    + apply Nat.eqb_neq in E.
      destruct (Nat.leb (S s) k) eqn:E1, (Nat.leb s k) eqn:E2, (Nat.ltb k (S s + n)) eqn:E3, (Nat.ltb k (s + S n)) eqn:E4;
        simpl; try ring;
        repeat match goal with
        | H : Nat.leb _ _ = true |- _ => apply Nat.leb_le in H
        | H : Nat.leb _ _ = false |- _ => apply Nat.leb_gt in H
        | H : Nat.ltb _ _ = true |- _ => apply Nat.ltb_lt in H
        | H : Nat.ltb _ _ = false |- _ => apply Nat.ltb_ge in H
        end; lia.
Qed.

Lemma bget_single (a : R) j : bget O [a] j = a. Proof. reflexivity. Qed.
Lemma bget_nth l j : length l <> 1%nat -> bget O l j = nth j l 0.
Proof. destruct l as [|a [|b l]]; simpl; intros H; try reflexivity. congruence. Qed.

Lemma upd_length {A} (l : list A) k x : length (upd l k x) = length l.
Proof. revert k; induction l as [|y l IH]; intros [|k]; simpl; auto. Qed.

Lemma nth_upd {A} (l : list A) k x j d : (k < length l)%nat ->
  nth j (upd l k x) d = if Nat.eqb j k then x else nth j l d.
Proof.
  revert k j; induction l as [|y l IH]; intros [|k] [|j] H; simpl in *; try lia; try reflexivity.
  apply IH. lia.
Qed.

Lemma nth_upd_same {A} (l : list A) k d : upd l k (nth k l d) = l.
Proof. revert k; induction l as [|y l IH]; intros [|k]; simpl; auto. now rewrite IH. Qed.

Lemma nth_map' {A B} (f : A -> B) l k d d' : (k < length l)%nat -> nth k (map f l) d = f (nth k l d').
Proof. revert k; induction l as [|y l IH]; intros [|k] H; simpl in *; try lia; auto. apply IH; lia. Qed.

Lemma nth_tab_div n g k N : (k < n)%nat ->
  nth k (map (fun x => x / INR N) (tabulate n g)) 0 = g k / INR N.
Proof.
  intros H. unfold tabulate. rewrite map_map.
  rewrite nth_map' with (d' := 0%nat) by (rewrite seq_length; lia).
  rewrite seq_nth by lia. reflexivity.
Qed.

(* the partial derivative with respect to ONE element of a (possibly broadcast) argument list *)
Lemma mean_partial_list N l k (term : nat -> R -> R) (g : nat -> R) :
  (k < length l)%nat -> (length l = N \/ length l = 1%nat) ->
  (forall j, (j < N)%nat -> is_derive (term j) (bget O l j) (g j)) ->
  is_derive (fun y => tmean O (tabulate N (fun j => term j (bget O (upd l k y) j))))
            (nth k l 0) (nth k (postprocess O (tabulate N g) (length l)) 0).
Proof.
  intros Hk Hlen H.
  destruct (Nat.eq_dec (length l) 1) as [E1|E1].
  - destruct l as [|a [|b l]]; simpl in E1; try lia. destruct k; [|simpl in Hk; lia].
    simpl. apply is_derive_tmean. intros j Hj. apply (H j Hj).
  - destruct Hlen as [HN|]; [|lia]. subst N.
    unfold postprocess. replace (Nat.ltb 1 (length l)) with true by (symmetry; apply Nat.ltb_lt; lia).
    cbn [o_div o_of_nat O ROps]. rewrite nth_tab_div by exact Hk.
    apply is_derive_ext with (f := fun y => tmean O (tabulate (length l)
              (fun j => (fun j y => term j (if Nat.eqb j k then y else nth j l 0)) j y))).
    { intros t. f_equal. unfold tabulate. apply map_ext. intros j.
      rewrite bget_nth by (rewrite upd_length; exact E1). rewrite nth_upd by exact Hk. reflexivity. }
    eapply is_derive_eq.
    + apply is_derive_tmean with (D := fun j => if Nat.eqb j k then g k else 0).
      intros j Hj. destruct (Nat.eqb j k) eqn:E.
      * apply Nat.eqb_eq in E. subst j. specialize (H k Hk). rewrite bget_nth in H by exact E1. exact H.
      * apply @is_derive_const.
    + rewrite tmean_tab, sum_indicator.
      replace (Nat.leb 0 k && Nat.ltb k (0 + length l))%bool with true; [reflexivity|].
      symmetry. apply andb_true_intro. split; [apply Nat.leb_le; lia | apply Nat.ltb_lt; lia].
Qed.

(* the partial derivative with respect to a scalar argument all terms share *)
Lemma mean_partial_scalar N (term : nat -> R -> R) (g : nat -> R) x :
  (forall j, (j < N)%nat -> is_derive (term j) x (g j)) ->
  is_derive (fun y => tmean O (tabulate N (fun j => term j y))) x
            (nth 0 (postprocess O (tabulate N g) 1) 0).
Proof. intros H. simpl. apply is_derive_tmean, H. Qed.

Lemma clamp_derive (f : R -> R) smin s d : smin < s ->
  is_derive f (Rmax s smin) d -> is_derive (fun y => f (Rmax y smin)) s d.
Proof.
  intros Hs. rewrite Rmax_left by lra. intros Hd.
  apply is_derive_ext_loc with (f := f); [|exact Hd].
  assert (Hp : 0 < s - smin) by lra.
  exists (mkposreal _ Hp). intros y Hy.
  rewrite Rmax_left; [reflexivity|].
  unfold ball in Hy; simpl in Hy. unfold AbsRing_ball, abs, minus, plus, opp in Hy; simpl in Hy.
  apply Rabs_def2 in Hy. lra.
Qed.

Hypothesis HPhi : forall u, is_derive Phi u (pdf u).
Hypothesis Hpdf : forall u, is_derive pdf u (- u * pdf u).
Variable C : Cfg R.

Lemma DPhi u : Derive Phi u = pdf u. Proof. apply is_derive_unique, HPhi. Qed.
Lemma Dpdf u : Derive pdf u = - u * pdf u. Proof. apply is_derive_unique, Hpdf. Qed.
Lemma exPhi u : ex_derive Phi u. Proof. eexists; apply HPhi. Qed.
Lemma expdf u : ex_derive pdf u. Proof. eexists; apply Hpdf. Qed.

Lemma ei_core_dmean b m s : s <> 0 ->
  is_derive (fun m => ei_core O C b m s) m (- Phi (quant_u O C b m s)).
Proof.
  intros Hs. unfold ei_core, quant_u; cbn.
  auto_derive.
  - repeat split; auto using exPhi, expdf.
  - rewrite DPhi, Dpdf. unfold Rdiv, Rminus. field. exact Hs.
Qed.

Lemma ei_core_dstd b m s : s <> 0 ->
  is_derive (fun s => ei_core O C b m s) s (pdf (quant_u O C b m s)).
Proof.
  intros Hs. unfold ei_core, quant_u; cbn.
  auto_derive.
  - repeat split; auto using exPhi, expdf.
  - rewrite DPhi, Dpdf. unfold Rdiv, Rminus. field. exact Hs.
Qed.

Lemma clamp_pos s : 0 < c_std_min C -> clamp_std O C s <> 0.
Proof. intros H. unfold clamp_std; cbn. generalize (Rmax_r s (c_std_min C)). lra. Qed.

Lemma max_same n : Nat.max n n = n. Proof. apply Nat.max_id. Qed.

(* ---------------- EI ---------------- *)
Lemma ei_value_consistency (means : list R) (std : R) (bests : list R) :
  g_hval (ei_head_grad O C means std bests) = ei_head O C means std bests.
Proof.
  unfold ei_head_grad, ei_head; cbn [g_hval]. cbv zeta. rewrite tmean_opp.
  f_equal. unfold tabulate. apply map_ext. intros j. unfold ei_core. cbn. ring.
Qed.

Lemma ei_partial_mean (means : list R) (std : R) (bests : list R) k :
  0 < c_std_min C -> length bests = length means -> (k < length means)%nat ->
  is_derive (fun y => ei_head O C (upd means k y) std bests) (nth k means 0)
            (nth k (g_dmean (ei_head_grad O C means std bests)) 0).
Proof.
  intros Hmin Hlen Hk.
  set (s' := clamp_std O C std).
  pose (term := fun (j : nat) (m : R) => - ei_core O C (bget O bests j) m s').
  apply is_derive_ext with (f := fun y => tmean O (tabulate (length means)
          (fun j => term j (bget O (upd means k y) j)))).
  { intros t. unfold ei_head. rewrite upd_length, Hlen. unfold bsize. rewrite max_same.
    f_equal. unfold tabulate. apply map_ext. intros j. unfold term, ei_core. cbn. ring. }
  eapply is_derive_eq.
  - apply mean_partial_list with (g := fun j => Phi (quant_u O C (bget O bests j) (bget O means j) s')).
    + exact Hk.
    + now left.
    + intros j Hj. unfold term. eapply is_derive_eq.
      * apply @is_derive_opp. apply ei_core_dmean. apply clamp_pos, Hmin.
      * unfold opp; simpl. ring.
  - unfold ei_head_grad; cbn [g_dmean]. rewrite Hlen. unfold bsize. rewrite max_same. reflexivity.
Qed.

Lemma ei_partial_std (means : list R) (std : R) (bests : list R) :
  c_std_min C < std -> 0 < c_std_min C ->
  is_derive (fun y => ei_head O C means y bests) std
            (nth 0 (g_dstd (ei_head_grad O C means std bests)) 0).
Proof.
  intros Hs Hmin.
  set (n := bsize (length means) (length bests)).
  pose (T := fun (j : nat) (s' : R) => - ei_core O C (bget O bests j) (bget O means j) s').
  apply is_derive_ext with (f := fun y => tmean O (tabulate n (fun j => T j (Rmax y (c_std_min C))))).
  { intros t. unfold ei_head. fold n. f_equal. unfold tabulate. apply map_ext. intros j.
    unfold T, ei_core, clamp_std. cbn. ring. }
  eapply is_derive_eq.
  - apply mean_partial_scalar with
      (g := fun j => - pdf (quant_u O C (bget O bests j) (bget O means j) (clamp_std O C std))).
    intros j Hj. apply clamp_derive; [exact Hs|]. unfold T.
    apply @is_derive_opp. apply ei_core_dstd. apply clamp_pos, Hmin.
  - unfold ei_head_grad; cbn [g_dstd]. reflexivity.
Qed.

(* ---------------- LCB ---------------- *)
Lemma lcb_value_consistency (means : list R) (std : R) :
  g_hval (lcb_head_grad O C means std) = lcb_head O C means std.
Proof. reflexivity. Qed.

Lemma tmean_const n c : (0 < n)%nat -> tmean O (tabulate n (fun _ => c)) = c.
Proof.
  intros Hn. rewrite tmean_tab.
  assert (E : forall s, fold_right Rplus 0 (map (fun _ : nat => c) (seq s n)) = INR n * c).
  { clear Hn. induction n as [|n IH]; intros s; [simpl; ring|].
    rewrite S_INR. cbn [seq map fold_right]. rewrite IH. ring. }
  rewrite E. field. apply not_0_INR. lia.
Qed.

Lemma lcb_partial_mean (means : list R) (std : R) k : (k < length means)%nat ->
  is_derive (fun y => lcb_head O C (upd means k y) std) (nth k means 0)
            (nth k (g_dmean (lcb_head_grad O C means std)) 0).
Proof.
  intros Hk.
  pose (term := fun (j : nat) (m : R) => m - std * c_kappa C).
  apply is_derive_ext with (f := fun y => tmean O (tabulate (length means)
          (fun j => term j (bget O (upd means k y) j)))).
  { intros t. unfold lcb_head. rewrite upd_length. reflexivity. }
  eapply is_derive_eq.
  - apply mean_partial_list with (g := fun _ => 1); [exact Hk | now left |].
    intros j Hj. unfold term. auto_derive; [exact I | ring].
  - unfold lcb_head_grad; cbn [g_dmean].
    unfold tabulate at 1. rewrite nth_map' with (d' := 0%nat) by (rewrite seq_length; exact Hk).
    unfold postprocess. destruct (Nat.ltb 1 (length means)) eqn:E.
    + cbn [o_div o_of_nat o_one O ROps]. rewrite nth_tab_div by exact Hk. reflexivity.
    + apply Nat.ltb_ge in E. assert (length means = 1%nat) as -> by lia.
      destruct k; [|lia]. cbn [nth]. rewrite tmean_const by lia. cbn. field.
Qed.

Lemma lcb_partial_std (means : list R) (std : R) : means <> [] ->
  is_derive (fun y => lcb_head O C means y) std (nth 0 (g_dstd (lcb_head_grad O C means std)) 0).
Proof.
  intros Hne.
  pose (term := fun (j : nat) (s : R) => bget O means j - s * c_kappa C).
  apply is_derive_ext with (f := fun y => tmean O (tabulate (length means) (fun j => term j y))).
  { intros t. reflexivity. }
  eapply is_derive_eq.
  - apply mean_partial_scalar with (g := fun _ => - c_kappa C).
    intros j Hj. unfold term. auto_derive; [exact I | ring].
  - unfold postprocess. cbn [Nat.ltb Nat.leb nth lcb_head_grad g_dstd]. rewrite tmean_const; [cbn; ring|]. destruct means; [congruence | simpl; lia].
Qed.

(* ---------------- broadcasting ---------------- *)
Definition bcompat (a b : nat) : Prop := a = b \/ a = 1%nat \/ b = 1%nat.

Lemma bcompat_l a b : (0 < a)%nat -> (0 < b)%nat -> bcompat a b -> a = bsize a b \/ a = 1%nat.
Proof. unfold bcompat, bsize. intros Ha Hb [E|[E|E]]; [left|right|left]; lia. Qed.
Lemma bcompat_r a b : (0 < a)%nat -> (0 < b)%nat -> bcompat a b -> b = bsize a b \/ b = 1%nat.
Proof. unfold bcompat, bsize. intros Ha Hb [E|[E|E]]; [left|left|right]; lia. Qed.

Lemma bget_Forall (P : R -> Prop) (l : list R) j N :
  List.Forall P l -> (length l = N \/ length l = 1%nat) -> (j < N)%nat -> P (bget O l j).
Proof.
  intros HF Hl Hj. destruct (Nat.eq_dec (length l) 1) as [E|E].
  - destruct l as [|a [|b l]]; simpl in E; try lia. simpl. now inversion HF.
  - rewrite bget_nth by exact E. rewrite List.Forall_forall in HF. apply HF, nth_In. lia.
Qed.

(* ---------------- EIpu ---------------- *)
Lemma eipu_value_consistency (means : list R) (std : R) (bests costs : list R) :
  h_hval (eipu_head_grad O C means std bests costs) = eipu_head O C means std bests costs.
Proof. reflexivity. Qed.

Lemma eipu_partial_mean (means : list R) (std : R) (bests costs : list R) k :
  0 < c_std_min C -> length bests = length means -> (k < length means)%nat ->
  costs <> [] -> bcompat (length means) (length costs) ->
  is_derive (fun y => eipu_head O C (upd means k y) std bests costs) (nth k means 0)
            (nth k (h_dmean (eipu_head_grad O C means std bests costs)) 0).
Proof.
  intros Hmin Hlen Hk Hc Hcompat.
  assert (Hc' : (0 < length costs)%nat) by (destruct costs; [congruence | simpl; lia]).
  set (s' := clamp_std O C std).
  set (N := bsize (length means) (length costs)).
  pose (icp := fun j => o_pow O (pos_cost O C (bget O costs j)) (- c_expo C)).
  pose (term := fun (j : nat) (m : R) => - (ei_core O C (bget O bests j) m s' * icp j)).
  apply is_derive_ext with (f := fun y => tmean O (tabulate N
          (fun j => term j (bget O (upd means k y) j)))).
  { intros t. unfold eipu_head. rewrite upd_length. fold N. cbv zeta.
    cbn [o_opp O ROps]. rewrite tmean_opp. reflexivity. }
  eapply is_derive_eq.
  - apply mean_partial_list with
      (g := fun j => Phi (quant_u O C (bget O bests j) (bget O means j) s') * icp j).
    + exact Hk.
    + destruct (bcompat_l (length means) (length costs) ltac:(lia) Hc' Hcompat) as [E|E]; [left; exact E | now right].
    + intros j Hj. unfold term. eapply is_derive_eq.
      * apply @is_derive_opp. apply @is_derive_scal_l. apply ei_core_dmean. apply clamp_pos, Hmin.
      * unfold opp, scal; simpl. unfold mult; simpl. ring.
  - reflexivity.
Qed.

Lemma eipu_partial_std (means : list R) (std : R) (bests costs : list R) :
  c_std_min C < std -> 0 < c_std_min C ->
  is_derive (fun y => eipu_head O C means y bests costs) std
            (nth 0 (h_dstd (eipu_head_grad O C means std bests costs)) 0).
Proof.
  intros Hs Hmin.
  set (N := bsize (length means) (length costs)).
  pose (icp := fun j => o_pow O (pos_cost O C (bget O costs j)) (- c_expo C)).
  pose (T := fun (j : nat) (s' : R) => - (ei_core O C (bget O bests j) (bget O means j) s' * icp j)).
  apply is_derive_ext with (f := fun y => tmean O (tabulate N (fun j => T j (Rmax y (c_std_min C))))).
  { intros t. unfold eipu_head. fold N. cbv zeta. cbn [o_opp O ROps]. rewrite tmean_opp. reflexivity. }
  eapply is_derive_eq.
  - apply mean_partial_scalar with
      (g := fun j => (- pdf (quant_u O C (bget O bests j) (bget O means j) (clamp_std O C std))) * icp j).
    intros j Hj. apply clamp_derive; [exact Hs|]. unfold T. eapply is_derive_eq.
    + apply @is_derive_opp. apply @is_derive_scal_l. apply ei_core_dstd. apply clamp_pos, Hmin.
    + unfold opp, scal; simpl. unfold mult; simpl. ring.
  - reflexivity.
Qed.

Lemma pow_term_derive (E e c : R) : 0 < c ->
  is_derive (fun c => - (E * exp (- e * ln c))) c ((e * (E * exp (- e * ln c))) / c).
Proof. intros Hc. auto_derive; [exact Hc | field; lra]. Qed.

Lemma eipu_partial_cost (means : list R) (std : R) (bests costs : list R) k :
  0 < c_min_cost C -> List.Forall (fun c => c_min_cost C < c) costs ->
  (k < length costs)%nat -> means <> [] -> bcompat (length means) (length costs) ->
  is_derive (fun y => eipu_head O C means std bests (upd costs k y)) (nth k costs 0)
            (nth k (h_dcost (eipu_head_grad O C means std bests costs)) 0).
Proof.
  intros Hmin Hpos Hk Hm Hcompat.
  assert (Hm' : (0 < length means)%nat) by (destruct means; [congruence | simpl; lia]).
  set (s' := clamp_std O C std).
  set (N := bsize (length means) (length costs)).
  pose (E := fun j => ei_core O C (bget O bests j) (bget O means j) s').
  pose (F := fun (j : nat) (c' : R) => - (E j * exp (- c_expo C * ln c'))).
  pose (term := fun (j : nat) (c : R) => F j (Rmax c (c_min_cost C))).
  assert (HN : length costs = N \/ length costs = 1%nat).
  { destruct (bcompat_r (length means) (length costs) Hm' ltac:(lia) Hcompat) as [E1|E1]; [left; exact E1 | now right]. }
  apply is_derive_ext with (f := fun y => tmean O (tabulate N
          (fun j => term j (bget O (upd costs k y) j)))).
  { intros t. unfold eipu_head. rewrite upd_length. fold N. cbv zeta.
    cbn [o_opp O ROps]. rewrite tmean_opp. reflexivity. }
  eapply is_derive_eq.
  - apply mean_partial_list with
      (g := fun j => (c_expo C * (E j * exp (- c_expo C * ln (Rmax (bget O costs j) (c_min_cost C)))))
                     / Rmax (bget O costs j) (c_min_cost C)).
    + exact Hk.
    + exact HN.
    + intros j Hj. unfold term. apply clamp_derive.
      * apply (bget_Forall (fun c => c_min_cost C < c) costs j N Hpos HN Hj).
      * unfold F. apply pow_term_derive. generalize (Rmax_r (bget O costs j) (c_min_cost C)). lra.
  - reflexivity.
Qed.

(* ---------------- CEI ---------------- *)
Lemma cei_value_consistency (means : list R) (std : R) (bests : list (option R)) (means_c : list R) (std_c : R) :
  k_hval (cei_head_grad O C means std bests means_c std_c) = cei_head O C means std bests means_c std_c.
Proof.
  reflexivity.
Qed.

(* the term of fantasy column j as a function of each of its four arguments *)
Definition cei_t (best : option R) (m s' mc sc' : R) : R := - cei_term O C best m s' mc sc'.

Lemma cei_head_as_mean (means : list R) (std : R) (bests : list (option R)) (means_c : list R) (std_c : R) :
  cei_head O C means std bests means_c std_c =
  tmean O (tabulate (bsize (length means) (length means_c)) (fun j =>
     cei_t (bgeto bests j) (bget O means j) (clamp_std O C std) (bget O means_c j) (constr_std O C std_c))).
Proof. unfold cei_head. cbv zeta. cbn [o_opp O ROps]. rewrite tmean_opp. reflexivity. Qed.

Lemma cei_t_dmean best m s' mc sc' : s' <> 0 ->
  is_derive (fun m => cei_t best m s' mc sc') m
    (match best with
     | Some b => Phi (quant_u O C b m s') * Phi (constr_z O mc sc')
     | None => 0 end).
Proof.
  intros Hs. unfold cei_t, cei_term. destruct best as [b|].
  - eapply is_derive_eq.
    + apply @is_derive_opp. apply @is_derive_scal_l. apply ei_core_dmean, Hs.
    + unfold opp, scal; simpl. unfold mult; simpl. ring.
  - eapply is_derive_eq; [apply @is_derive_const | reflexivity].
Qed.

Lemma cei_t_dstd best m s' mc sc' : s' <> 0 ->
  is_derive (fun s' => cei_t best m s' mc sc') s'
    (match best with
     | Some b => (- pdf (quant_u O C b m s')) * Phi (constr_z O mc sc')
     | None => 0 end).
Proof.
  intros Hs. unfold cei_t, cei_term. destruct best as [b|].
  - eapply is_derive_eq.
    + apply @is_derive_opp. apply @is_derive_scal_l. apply ei_core_dstd, Hs.
    + unfold opp, scal; simpl. unfold mult; simpl. ring.
  - eapply is_derive_eq; [apply @is_derive_const | reflexivity].
Qed.

Lemma cei_t_dmean_c best m s' mc sc' : sc' <> 0 ->
  is_derive (fun mc => cei_t best m s' mc sc') mc
    (match best with
     | Some b => (ei_core O C b m s' * (1 / sc')) * pdf (constr_z O mc sc')
     | None => (1 / sc') * pdf (constr_z O mc sc') end).
Proof.
  intros Hs. unfold cei_t, cei_term, constr_z. destruct best as [b|]; cbn [o_cdf o_opp o_div o_mul O ROps].
  - set (E := ei_core O C b m s'). auto_derive.
    + apply exPhi.
    + rewrite DPhi. unfold Rdiv, Rminus. field. exact Hs.
  - auto_derive.
    + apply exPhi.
    + rewrite DPhi. unfold Rdiv, Rminus. field. exact Hs.
Qed.

Lemma cei_t_dstd_c best m s' mc sc : sc + c_min_std_constr C <> 0 ->
  is_derive (fun sc => cei_t best m s' mc (constr_std O C sc)) sc
    (match best with
     | Some b => ((- ei_core O C b m s') * (mc / (constr_std O C sc * constr_std O C sc)))
                 * pdf (constr_z O mc (constr_std O C sc))
     | None => (- (mc / (constr_std O C sc * constr_std O C sc))) * pdf (constr_z O mc (constr_std O C sc)) end).
Proof.
  intros Hs. unfold cei_t, cei_term, constr_z, constr_std.
  destruct best as [b|]; cbn [o_cdf o_opp o_div o_mul o_add O ROps].
  - set (E := ei_core O C b m s'). auto_derive.
    + repeat split; auto using exPhi.
    + rewrite DPhi. unfold Rdiv, Rminus. field. exact Hs.
  - auto_derive.
    + repeat split; auto using exPhi.
    + rewrite DPhi. unfold Rdiv, Rminus. field. exact Hs.
Qed.

Lemma cei_partial_mean (means : list R) (std : R) (bests : list (option R)) (means_c : list R) (std_c : R) k :
  0 < c_std_min C -> (k < length means)%nat ->
  means_c <> [] -> bcompat (length means) (length means_c) ->
  is_derive (fun y => cei_head O C (upd means k y) std bests means_c std_c) (nth k means 0)
            (nth k (k_dmean (cei_head_grad O C means std bests means_c std_c)) 0).
Proof.
  intros Hmin Hk Hc Hcompat.
  assert (Hc' : (0 < length means_c)%nat) by (destruct means_c; [congruence | simpl; lia]).
  set (N := bsize (length means) (length means_c)).
  pose (term := fun (j : nat) (m : R) =>
     cei_t (bgeto bests j) m (clamp_std O C std) (bget O means_c j) (constr_std O C std_c)).
  apply is_derive_ext with (f := fun y => tmean O (tabulate N
          (fun j => term j (bget O (upd means k y) j)))).
  { intros t. rewrite cei_head_as_mean. rewrite upd_length. reflexivity. }
  eapply is_derive_eq.
  - eapply mean_partial_list.
    + exact Hk.
    + destruct (bcompat_l (length means) (length means_c) ltac:(lia) Hc' Hcompat) as [E|E];
        [left; exact E | now right].
    + intros j Hj. unfold term. apply cei_t_dmean. apply clamp_pos, Hmin.
  - reflexivity.
Qed.

Lemma cei_partial_std (means : list R) (std : R) (bests : list (option R)) (means_c : list R) (std_c : R) :
  c_std_min C < std -> 0 < c_std_min C ->
  is_derive (fun y => cei_head O C means y bests means_c std_c) std
            (nth 0 (k_dstd (cei_head_grad O C means std bests means_c std_c)) 0).
Proof.
  intros Hs Hmin.
  set (N := bsize (length means) (length means_c)).
  pose (T := fun (j : nat) (s' : R) =>
     cei_t (bgeto bests j) (bget O means j) s' (bget O means_c j) (constr_std O C std_c)).
  apply is_derive_ext with (f := fun y => tmean O (tabulate N (fun j => T j (Rmax y (c_std_min C))))).
  { intros t. rewrite cei_head_as_mean. reflexivity. }
  eapply is_derive_eq.
  - eapply mean_partial_scalar.
    intros j Hj. apply clamp_derive; [exact Hs|]. unfold T. apply cei_t_dstd. apply clamp_pos, Hmin.
  - reflexivity.
Qed.

Lemma cei_partial_mean_c (means : list R) (std : R) (bests : list (option R)) (means_c : list R) (std_c : R) k :
  std_c + c_min_std_constr C <> 0 -> (k < length means_c)%nat ->
  means <> [] -> bcompat (length means) (length means_c) ->
  is_derive (fun y => cei_head O C means std bests (upd means_c k y) std_c) (nth k means_c 0)
            (nth k (k_dmean_c (cei_head_grad O C means std bests means_c std_c)) 0).
Proof.
  intros Hsc Hk Hm Hcompat.
  assert (Hm' : (0 < length means)%nat) by (destruct means; [congruence | simpl; lia]).
  set (N := bsize (length means) (length means_c)).
  pose (term := fun (j : nat) (mc : R) =>
     cei_t (bgeto bests j) (bget O means j) (clamp_std O C std) mc (constr_std O C std_c)).
  apply is_derive_ext with (f := fun y => tmean O (tabulate N
          (fun j => term j (bget O (upd means_c k y) j)))).
  { intros t. rewrite cei_head_as_mean. rewrite upd_length. reflexivity. }
  eapply is_derive_eq.
  - eapply mean_partial_list.
    + exact Hk.
    + destruct (bcompat_r (length means) (length means_c) Hm' ltac:(lia) Hcompat) as [E|E];
        [left; exact E | now right].
    + intros j Hj. unfold term. apply cei_t_dmean_c. exact Hsc.
  - reflexivity.
Qed.

Lemma cei_partial_std_c (means : list R) (std : R) (bests : list (option R)) (means_c : list R) (std_c : R) :
  std_c + c_min_std_constr C <> 0 ->
  is_derive (fun y => cei_head O C means std bests means_c y) std_c
            (nth 0 (k_dstd_c (cei_head_grad O C means std bests means_c std_c)) 0).
Proof.
  intros Hsc.
  set (N := bsize (length means) (length means_c)).
  pose (T := fun (j : nat) (sc : R) =>
     cei_t (bgeto bests j) (bget O means j) (clamp_std O C std) (bget O means_c j) (constr_std O C sc)).
  apply is_derive_ext with (f := fun y => tmean O (tabulate N (fun j => T j y))).
  { intros t. rewrite cei_head_as_mean. reflexivity. }
  eapply is_derive_eq.
  - eapply mean_partial_scalar.
    intros j Hj. unfold T. apply cei_t_dstd_c. exact Hsc.
  - reflexivity.
Qed.
End L.

(* ---------------- EI is never negative (partial: the behaviour of Phi at -oo is a hypothesis) -- *)
Section EINonneg.
Variable Phi : R -> R.
Hypothesis HPhi : forall u, is_derive Phi u (gauss_pdf u).
Hypothesis Hnn : forall u, 0 <= Phi u.
(* liminf_{u -> -oo} (u Phi(u) + pdf(u)) >= 0 *)
Hypothesis Hlim : forall eps, 0 < eps -> exists M, forall u, u < M -> - eps < u * Phi u + gauss_pdf u.

Let g (u : R) := u * Phi u + gauss_pdf u.

Lemma g_derive u : is_derive g u (Phi u).
Proof.
  unfold g. eapply is_derive_eq.
  - apply @is_derive_plus.
    + apply @is_derive_mult; [apply @is_derive_id | apply HPhi | intros; apply Rmult_comm].
    + apply gauss_pdf_derive.
  - unfold plus, mult, one; simpl. ring.
Qed.

Lemma g_mono v u : v <= u -> g v <= g u.
Proof.
  intros Hvu. destruct (Req_dec v u) as [->|Hne]; [lra|].
  destruct (MVT_gen g v u Phi) as [c [Hc Hgc]].
  - intros x _. apply g_derive.
  - intros x _. apply continuity_pt_filterlim. apply @ex_derive_continuous. eexists; apply g_derive.
  - generalize (Hnn c). intros. assert (0 <= Phi c * (u - v)) by (apply Rmult_le_pos; lra). lra.
Qed.

Lemma ei_integrand_nonneg u : 0 <= u * Phi u + gauss_pdf u.
Proof.
  destruct (Rle_lt_dec 0 (g u)) as [H|H]; [exact H|]. exfalso.
  destruct (Hlim (- g u)) as [M HM]; [lra|].
  set (v := Rmin (M - 1) u).
  assert (Hv1 : v < M) by (unfold v; generalize (Rmin_l (M - 1) u); lra).
  assert (Hv2 : v <= u) by (unfold v; apply Rmin_r).
  specialize (HM v Hv1). generalize (g_mono v u Hv2). unfold g in *. lra.
Qed.

Lemma sum_nonpos (f : nat -> R) idx : (forall j, In j idx -> f j <= 0) -> fold_right Rplus 0 (map f idx) <= 0.
Proof.
  induction idx as [|i idx IH]; intros H; simpl; [lra|].
  generalize (H i (or_introl eq_refl)) (IH (fun j Hj => H j (or_intror Hj))). lra.
Qed.

Lemma ei_head_nonpos (C : Cfg R) (means : list R) (std : R) (bests : list R) :
  0 < c_std_min C -> ei_head (ROps Phi gauss_pdf) C means std bests <= 0.
Proof.
  intros Hmin. unfold ei_head. cbv zeta. rewrite tmean_tab.
  set (n := bsize (length means) (length bests)).
  assert (Hs : fold_right Rplus 0 (map (fun j =>
     let u := quant_u (ROps Phi gauss_pdf) C (bget (ROps Phi gauss_pdf) bests j) (bget (ROps Phi gauss_pdf) means j)
                      (clamp_std (ROps Phi gauss_pdf) C std) in
     o_mul (ROps Phi gauss_pdf) (o_opp (ROps Phi gauss_pdf) (clamp_std (ROps Phi gauss_pdf) C std))
       (o_add (ROps Phi gauss_pdf) (o_mul (ROps Phi gauss_pdf) u (o_cdf (ROps Phi gauss_pdf) u)) (o_pdf (ROps Phi gauss_pdf) u)))
     (seq 0 n)) <= 0).
  { apply sum_nonpos. intros j _. cbv zeta. cbn [o_mul o_opp o_add o_cdf o_pdf ROps].
    set (u := quant_u _ _ _ _ _).
    assert (Hpos : 0 < clamp_std (ROps Phi gauss_pdf) C std).
    { unfold clamp_std; cbn. generalize (Rmax_r std (c_std_min C)). lra. }
    generalize (ei_integrand_nonneg u). intros Hg.
    assert (0 <= clamp_std (ROps Phi gauss_pdf) C std * (u * Phi u + gauss_pdf u)) by (apply Rmult_le_pos; lra).
    lra. }
  destruct n as [|n].
  - simpl. unfold Rdiv. lra.
  - unfold Rdiv. assert (0 < / INR (S n)) by (apply Rinv_0_lt_compat, lt_0_INR; lia).
    assert (Hx : forall a b, a <= 0 -> 0 < b -> a * b <= 0) by (intros; nra). apply Hx; assumption.
Qed.
End EINonneg.

Lemma cdf_spec_sat : exists Phi : R -> R, forall u, is_derive Phi u (gauss_pdf u).
Proof.
  assert (Hc : forall u, continuous gauss_pdf u).
  { intros u. apply @ex_derive_continuous. eexists; apply gauss_pdf_derive. }
  exists (fun u => RInt gauss_pdf 0 u). intros u.
  apply (is_derive_RInt gauss_pdf (fun u => RInt gauss_pdf 0 u) 0 u).
  - apply filter_forall. intros y. apply @RInt_correct. apply @ex_RInt_continuous. intros z _. apply Hc.
  - apply Hc.
Qed.

(* ---------------- EI >= 0 from Phi' = pdf and Phi -> 0 at -oo only (closes the _partial) -------- *)
(* "f -> 0 at -oo" in epsilon form *)
Definition tends_to_0_at_minus_infty (f : R -> R) : Prop :=
  forall eps, 0 < eps -> exists M, forall u, u < M -> Rabs (f u) < eps.

Lemma is_lim_m_infty_0 (f : R -> R) : is_lim f m_infty 0 -> tends_to_0_at_minus_infty f.
Proof.
  intros H eps Heps. apply is_lim_spec in H. specialize (H (mkposreal eps Heps)).
  destruct H as [M HM]. exists M. intros u Hu. specialize (HM u Hu). simpl in HM.
  now rewrite Rminus_0_r in HM.
Qed.

(* a function with nonnegative derivative on (-oo, a] that is eventually > -eps at -oo is >= 0 there *)
Lemma nonneg_from_minus_infty (f df : R -> R) (a : R) :
  (forall x, x <= a -> is_derive f x (df x)) -> (forall x, x <= a -> 0 <= df x) ->
  (forall eps, 0 < eps -> exists M, forall u, u < M -> - eps < f u) ->
  forall u, u <= a -> 0 <= f u.
Proof.
  intros Hd Hpos Hlim u Hu.
  destruct (Rle_lt_dec 0 (f u)) as [H|H]; [exact H|]. exfalso.
  destruct (Hlim (- f u)) as [M HM]; [lra|].
  set (v := Rmin (M - 1) (u - 1)).
  assert (Hv1 : v < M) by (unfold v; generalize (Rmin_l (M - 1) (u - 1)); lra).
  assert (Hv2 : v < u) by (unfold v; generalize (Rmin_r (M - 1) (u - 1)); lra).
  specialize (HM v Hv1).
  destruct (MVT_gen f v u df) as [c [Hc Hfc]].
  - intros x Hx. apply Hd. rewrite Rmin_left, Rmax_right in Hx by lra. lra.
  - intros x Hx. rewrite Rmin_left, Rmax_right in Hx by lra.
    apply continuity_pt_filterlim. apply @ex_derive_continuous. eexists. apply Hd. lra.
  - rewrite Rmin_left, Rmax_right in Hc by lra.
    assert (0 <= df c * (u - v)) by (apply Rmult_le_pos; [apply Hpos; lra | lra]). lra.
Qed.

Section EINonnegFull.
Variable Phi : R -> R.
Hypothesis HPhi : forall u, is_derive Phi u (gauss_pdf u).
Hypothesis Hlim : tends_to_0_at_minus_infty Phi.

Lemma Phi_nonneg u : 0 <= Phi u.
Proof.
  apply (nonneg_from_minus_infty Phi gauss_pdf u); [intros; apply HPhi | | | lra].
  - intros x _. apply Rlt_le, gauss_pdf_pos.
  - intros eps Heps. destruct (Hlim eps Heps) as [M HM]. exists M. intros v Hv.
    specialize (HM v Hv). apply Rabs_def2 in HM. lra.
Qed.

(* Mills' bound: for u < 0,  -u Phi(u) <= pdf(u) *)
Lemma mills_bound u : u < 0 -> - u * Phi u <= gauss_pdf u.
Proof.
  intros Hu.
  pose (h := fun t => gauss_pdf t / (- t) - Phi t).
  pose (dh := fun t => gauss_pdf t / (t * t)).
  assert (H : 0 <= h u).
  { apply (nonneg_from_minus_infty h dh u); [| | | lra].
    - intros x Hx. unfold h, dh. assert (x <> 0) by lra. eapply is_derive_eq.
      + apply @is_derive_minus; [|apply HPhi].
        apply @is_derive_div; [apply gauss_pdf_derive | | lra].
        apply @is_derive_opp. apply @is_derive_id.
      + unfold minus, plus, opp, one; simpl. field. lra.
    - intros x Hx. unfold dh. apply Rlt_le, Rdiv_lt_0_compat; [apply gauss_pdf_pos | nra].
    - intros eps Heps. destruct (Hlim eps Heps) as [M HM]. exists (Rmin M u). intros v Hv.
      assert (v < M) by (generalize (Rmin_l M u); lra). assert (v < 0) by (generalize (Rmin_r M u); lra).
      specialize (HM v H). apply Rabs_def2 in HM. unfold h.
      assert (0 < gauss_pdf v / - v) by (apply Rdiv_lt_0_compat; [apply gauss_pdf_pos | lra]). lra. }
  unfold h in H. assert (Hq : Phi u <= gauss_pdf u / - u) by lra.
  apply (Rmult_le_compat_l (- u)) in Hq; [|lra]. replace (- u * (gauss_pdf u / - u)) with (gauss_pdf u) in Hq by (field; lra).
  exact Hq.
Qed.

Lemma ei_integrand_nonneg_full u : 0 <= u * Phi u + gauss_pdf u.
Proof.
  destruct (Rlt_le_dec u 0) as [Hu|Hu].
  - generalize (mills_bound u Hu). lra.
  - generalize (Phi_nonneg u) (gauss_pdf_pos u). intros. assert (0 <= u * Phi u) by (apply Rmult_le_pos; lra). lra.
Qed.
End EINonnegFull.

(* ---------------- a cdf with these two properties exists (non-vacuity) --------------------------- *)
Definition Phi0 (u : R) : R := RInt gauss_pdf 0 u.

Lemma gauss_pdf_continuous u : continuous gauss_pdf u.
Proof. apply @ex_derive_continuous. eexists; apply gauss_pdf_derive. Qed.

Lemma Phi0_derive u : is_derive Phi0 u (gauss_pdf u).
Proof.
  apply (is_derive_RInt gauss_pdf Phi0 0 u).
  - apply filter_forall. intros y. apply @RInt_correct. apply @ex_RInt_continuous. intros z _. apply gauss_pdf_continuous.
  - apply gauss_pdf_continuous.
Qed.

Lemma Phi0_0 : Phi0 0 = 0.
Proof. unfold Phi0. exact (RInt_point 0 gauss_pdf). Qed.

Lemma mono_from_derive (f df : R -> R) : (forall x, is_derive f x (df x)) -> (forall x, 0 <= df x) ->
  forall v u, v <= u -> f v <= f u.
Proof.
  intros Hd Hp v u Hvu. destruct (Req_dec v u) as [->|Hne]; [lra|].
  destruct (MVT_gen f v u df) as [c [Hc Hfc]].
  - intros x _. apply Hd.
  - intros x _. apply continuity_pt_filterlim. apply @ex_derive_continuous. eexists; apply Hd.
  - assert (0 <= df c * (u - v)) by (apply Rmult_le_pos; [apply Hp | lra]). lra.
Qed.

Lemma Phi0_mono v u : v <= u -> Phi0 v <= Phi0 u.
Proof. apply (mono_from_derive Phi0 gauss_pdf Phi0_derive). intros x; apply Rlt_le, gauss_pdf_pos. Qed.

Definition Cb : R := exp (1 / 2) / sqrt (2 * PI).

Lemma gauss_pdf_le_exp t : gauss_pdf t <= Cb * exp t.
Proof.
  unfold gauss_pdf, Cb. generalize sqrt_2PI_pos; intros Hs.
  replace (exp (1 / 2) / sqrt (2 * PI) * exp t) with (exp (1 / 2 + t) / sqrt (2 * PI)) by (rewrite exp_plus; unfold Rdiv; ring).
  apply Rmult_le_compat_r; [left; apply Rinv_0_lt_compat, Hs|].
  assert (Hle : - (t * t) / 2 <= 1 / 2 + t) by (generalize (Rle_0_sqr (t + 1)); unfold Rsqr; intros H0; replace ((t + 1) * (t + 1)) with (t * t + 2 * t + 1) in H0 by ring; lra).
  destruct (Rle_lt_or_eq_dec _ _ Hle) as [Hlt|Heq]; [left; apply exp_increasing, Hlt | rewrite Heq; right; reflexivity].
Qed.

Lemma Phi0_lower u : - Cb <= Phi0 u.
Proof.
  assert (HC : 0 < Cb) by (unfold Cb; apply Rdiv_lt_0_compat; [apply exp_pos | apply sqrt_2PI_pos]).
  destruct (Rle_lt_dec 0 u) as [Hu|Hu].
  - generalize (Phi0_mono 0 u Hu). rewrite Phi0_0. lra.
  - (* k(t) = Cb exp t - Phi0 t is nondecreasing *)
    pose (k := fun t => Cb * exp t - Phi0 t).
    assert (Hk : k u <= k 0).
    { apply (mono_from_derive k (fun t => Cb * exp t - gauss_pdf t)); [| |lra].
      - intros x. unfold k. apply @is_derive_minus; [|apply Phi0_derive].
        eapply is_derive_eq; [apply @is_derive_scal; apply is_derive_exp | unfold scal; simpl; unfold mult; simpl; ring].
      - intros x. generalize (gauss_pdf_le_exp x). lra. }
    unfold k in Hk. rewrite Phi0_0, exp_0 in Hk. generalize (exp_pos u). intros. nra.
Qed.

Lemma gauss_cdf_exists :
  exists Phi : R -> R, (forall u, is_derive Phi u (gauss_pdf u)) /\ tends_to_0_at_minus_infty Phi.
Proof.
  pose (E := fun y => exists u, y = - Phi0 u).
  assert (Hb : bound E). { exists Cb. intros y [u ->]. generalize (Phi0_lower u). lra. }
  assert (Hne : exists y, E y). { exists (- Phi0 0), 0. reflexivity. }
  destruct (completeness E Hb Hne) as [m [Hub Hleast]].
  exists (fun u => Phi0 u + m). split.
  - intros u. eapply is_derive_eq.
    + apply @is_derive_plus; [apply Phi0_derive | apply @is_derive_const].
    + unfold plus, zero; simpl. ring.
  - intros eps Heps.
    assert (Hex : exists u0, m - eps < - Phi0 u0).
    { apply Classical_Prop.NNPP. intros Hn. assert (Hub' : is_upper_bound E (m - eps)).
      { intros y [u ->]. destruct (Rle_lt_dec (- Phi0 u) (m - eps)) as [H|H]; [exact H|]. exfalso. apply Hn. now exists u. }
      specialize (Hleast _ Hub'). lra. }
    destruct Hex as [u0 Hu0]. exists u0. intros u Hu.
    assert (H1 : - Phi0 u <= m) by (apply Hub; now exists u).
    assert (H2 : Phi0 u <= Phi0 u0) by (apply Phi0_mono; lra).
    apply Rabs_def1; lra.
Qed.

(* ---------------- the std floor; the HyperTune ensemble chain rule ------------------------------ *)
Section Floor.
Variables Phi pdf : R -> R.
Variable C : Cfg R.
Let O := ROps Phi pdf.

(* below the floor the head sees the floor: it is locally constant in std *)
Lemma below_floor (F : R -> R) (smin s : R) : s < smin ->
  is_derive (fun y => F (Rmax y smin)) s 0 /\ F (Rmax s smin) = F smin.
Proof.
  intros Hs. split; [|now rewrite Rmax_right by lra].
  apply is_derive_ext_loc with (f := fun _ => F smin); [|apply @is_derive_const].
  assert (Hp : 0 < smin - s) by lra.
  exists (mkposreal _ Hp). intros y Hy.
  unfold ball in Hy; simpl in Hy. unfold AbsRing_ball, abs, minus, plus, opp in Hy; simpl in Hy.
  apply Rabs_def2 in Hy. rewrite Rmax_right by lra. reflexivity.
Qed.

Lemma ei_below_floor (means : list R) (std : R) (bests : list R) : std < c_std_min C ->
  is_derive (fun y => ei_head O C means y bests) std 0 /\
  ei_head O C means std bests = ei_head O C means (c_std_min C) bests.
Proof.
  intros Hs.
  pose (F := fun s' : R => tmean O (tabulate (bsize (length means) (length bests)) (fun j =>
      let u := quant_u O C (bget O bests j) (bget O means j) s' in
      o_mul O (o_opp O s') (o_add O (o_mul O u (o_cdf O u)) (o_pdf O u))))).
  destruct (below_floor F (c_std_min C) std Hs) as [H1 H2]. split.
  - exact H1.
  - change (F (Rmax std (c_std_min C)) = F (Rmax (c_std_min C) (c_std_min C))).
    rewrite H2. now rewrite Rmax_left by lra.
Qed.

Lemma eipu_below_floor (means : list R) (std : R) (bests costs : list R) : std < c_std_min C ->
  is_derive (fun y => eipu_head O C means y bests costs) std 0 /\
  eipu_head O C means std bests costs = eipu_head O C means (c_std_min C) bests costs.
Proof.
  intros Hs.
  pose (F := fun s' : R => o_opp O (tmean O (tabulate (bsize (length means) (length costs)) (fun j =>
      eipu_term O C (bget O bests j) (bget O means j) s' (bget O costs j))))).
  destruct (below_floor F (c_std_min C) std Hs) as [H1 H2]. split.
  - exact H1.
  - change (F (Rmax std (c_std_min C)) = F (Rmax (c_std_min C) (c_std_min C))).
    rewrite H2. now rewrite Rmax_left by lra.
Qed.

Lemma cei_below_floor (means : list R) (std : R) (bests : list (option R)) (means_c : list R) (std_c : R) :
  std < c_std_min C ->
  is_derive (fun y => cei_head O C means y bests means_c std_c) std 0 /\
  cei_head O C means std bests means_c std_c = cei_head O C means (c_std_min C) bests means_c std_c.
Proof.
  intros Hs.
  pose (F := fun s' : R => o_opp O (tmean O (tabulate (bsize (length means) (length means_c)) (fun j =>
      cei_term O C (bgeto bests j) (bget O means j) s' (bget O means_c j) (constr_std O C std_c))))).
  destruct (below_floor F (c_std_min C) std Hs) as [H1 H2]. split.
  - exact H1.
  - change (F (Rmax std (c_std_min C)) = F (Rmax (c_std_min C) (c_std_min C))).
    rewrite H2. now rewrite Rmax_left by lra.
Qed.
End Floor.

Section Ensemble.
Variables Phi pdf : R -> R.
Let O := ROps Phi pdf.

(* a level with its derivative data: theta, mu, var as functions of one input coordinate, d mu, d var at x *)
Definition flevel := (R * (R -> R) * (R -> R) * R * R)%type.
Definition inst (l : list flevel) (y : R) : list (R * R * R) :=
  map (fun lv : flevel => let '(th, mu, var, _, _) := lv in (th, mu y, var y)) l.
Definition dinst (l : list flevel) : list (R * R * R) :=
  map (fun lv : flevel => let '(th, _, _, dmu, dvar) := lv in (th, dmu, dvar)) l.
Definition level_ok (x : R) (lv : flevel) : Prop :=
  let '(th, mu, var, dmu, dvar) := lv in is_derive mu x dmu /\ is_derive var x dvar.

Lemma ens_acc_derive (x : R) (l : list flevel) : List.Forall (level_ok x) l ->
  forall (am av : R -> R) (dam dav : R), is_derive am x dam -> is_derive av x dav ->
    is_derive (fun y => fst (ens_acc O (inst l y) (am y, av y))) x (fst (ens_acc O (dinst l) (dam, dav))) /\
    is_derive (fun y => snd (ens_acc O (inst l y) (am y, av y))) x (snd (ens_acc O (dinst l) (dam, dav))).
Proof.
  induction 1 as [|[[[[th mu] var] dmu] dvar] l [Hmu Hvar] Hl IH]; intros am av dam dav Ham Hav.
  - simpl. split; assumption.
  - cbn [inst dinst map ens_acc fst snd o_add o_mul O ROps].
    apply (IH (fun y => mu y * th + am y) (fun y => var y * (th * th) + av y)).
    + eapply is_derive_eq; [apply @is_derive_plus; [apply @is_derive_scal_l; exact Hmu | exact Ham]|].
      unfold plus, scal; simpl. unfold mult; simpl. ring.
    + eapply is_derive_eq; [apply @is_derive_plus; [apply @is_derive_scal_l; exact Hvar | exact Hav]|].
      unfold plus, scal; simpl. unfold mult; simpl. ring.
Qed.

Theorem ens_backward_is_derivative (x : R) (l : list flevel) (hgm hgs md sd : R) :
  List.Forall (level_ok x) l -> 0 < snd (ens_predict O (inst l x)) ->
  is_derive (fun y => backward_target O (ens_predict O (inst l y)) hgm hgs md sd) x
            (ens_backward O (inst l x) (dinst l) hgm hgs sd).
Proof.
  intros Hl Hpos. unfold ens_predict in *. cbn [o_zero O ROps] in *.
  destruct (ens_acc_derive x l Hl (fun _ => 0) (fun _ => 0) 0 0) as [Hm Hv];
    [apply @is_derive_const | apply @is_derive_const |].
  unfold backward_target, ens_backward, ens_predict.
  cbn [o_add o_mul o_div o_sqrt o_one o_zero O ROps].
  set (M := fun y => fst (ens_acc O (inst l y) (0, 0))) in *.
  set (V := fun y => snd (ens_acc O (inst l y) (0, 0))) in *.
  set (dM := fst (ens_acc O (dinst l) (0, 0))) in *.
  set (dV := snd (ens_acc O (dinst l) (0, 0))) in *.
  change (is_derive (fun y => (M y * sd + md) * hgm + sqrt (V y) * sd * hgs) x
                    (dM * sd * hgm + dV / ((1 + 1) * sqrt (V x)) * sd * hgs)).
  assert (Hs : 0 < sqrt (V x)) by (apply sqrt_lt_R0; exact Hpos).
  auto_derive.
  - repeat split; try (eexists; eassumption); exact Hpos.
  - rewrite (is_derive_unique (fun x0 : R => M x0) x dM Hm), (is_derive_unique (fun x0 : R => V x0) x dV Hv). field. lra.
Qed.
End Ensemble.

(* ---------------- head-level consequences ------------------------------------------------------- *)
Section HeadsNonneg.
Variable Phi : R -> R.
Hypothesis HPhi : forall u, is_derive Phi u (gauss_pdf u).
Hypothesis Hlim : tends_to_0_at_minus_infty Phi.
Let O := ROps Phi gauss_pdf.

Lemma ei_core_nonneg (C : Cfg R) b m s : 0 < s -> 0 <= ei_core O C b m s.
Proof.
  intros Hs. unfold ei_core. cbv zeta. cbn [o_mul o_add o_cdf o_pdf O ROps].
  apply Rmult_le_pos; [lra | apply (ei_integrand_nonneg_full Phi HPhi Hlim)].
Qed.

Lemma ei_head_nonpos_full (C : Cfg R) (means : list R) (std : R) (bests : list R) :
  0 < c_std_min C -> ei_head O C means std bests <= 0.
Proof.
  intros Hmin. apply (ei_head_nonpos Phi HPhi (Phi_nonneg Phi HPhi Hlim)); [|exact Hmin].
  intros eps Heps. exists 0. intros u _. generalize (ei_integrand_nonneg_full Phi HPhi Hlim u). lra.
Qed.

Lemma tmean_nonneg n (f : nat -> R) : (forall j, 0 <= f j) -> 0 <= tmean O (tabulate n f).
Proof.
  intros H. unfold O. rewrite tmean_tab.
  assert (Hs : 0 <= fold_right Rplus 0 (map f (seq 0 n))).
  { generalize (seq 0 n). induction l as [|i l IH]; simpl; [lra | generalize (H i); lra]. }
  destruct n as [|n]; [simpl; unfold Rdiv; lra|].
  unfold Rdiv. apply Rmult_le_pos; [exact Hs | left; apply Rinv_0_lt_compat, lt_0_INR; lia].
Qed.

Lemma clamp_pos' (C : Cfg R) s : 0 < c_std_min C -> 0 < clamp_std O C s.
Proof. intros H. unfold clamp_std; cbn. generalize (Rmax_r s (c_std_min C)). lra. Qed.

Lemma eipu_head_nonpos_full (C : Cfg R) (means : list R) (std : R) (bests costs : list R) :
  0 < c_std_min C -> eipu_head O C means std bests costs <= 0.
Proof.
  intros Hmin. unfold eipu_head. cbv zeta. cbn [o_opp O ROps].
  apply Ropp_le_cancel. rewrite Ropp_involutive, Ropp_0. apply tmean_nonneg. intros j.
  unfold eipu_term. cbn [o_mul o_pow O ROps]. apply Rmult_le_pos; [apply ei_core_nonneg, clamp_pos', Hmin | left; apply exp_pos].
Qed.

Lemma cei_head_nonpos_full (C : Cfg R) (means : list R) (std : R) (bests : list (option R)) (means_c : list R) (std_c : R) :
  0 < c_std_min C -> cei_head O C means std bests means_c std_c <= 0.
Proof.
  intros Hmin. unfold cei_head. cbv zeta. cbn [o_opp O ROps].
  apply Ropp_le_cancel. rewrite Ropp_involutive, Ropp_0. apply tmean_nonneg. intros j.
  unfold cei_term. cbv zeta. cbn [o_mul o_cdf O ROps].
  destruct (bgeto bests j) as [b|].
  - apply Rmult_le_pos; [apply ei_core_nonneg, clamp_pos', Hmin | apply (Phi_nonneg Phi HPhi Hlim)].
  - apply (Phi_nonneg Phi HPhi Hlim).
Qed.
End HeadsNonneg.

(* ---------------- plumbing: roles of the predictors, mixed-resource batch predict (no reals) ---- *)
Close Scope R_scope.
From Coq Require Import Permutation Bool.
Section PlumbingProofs.
Context {Row Out Pred : Type}.

Lemma roles_perm (d d' : list (nat * Pred)) (active : nat) :
  length d = 2 -> NoDup (dkeys d) -> Permutation d d' ->
  head_roles d' active = head_roles d active.
Proof.
  intros Hlen Hnd Hp. destruct d as [|[k1 v1] [|[k2 v2] [|]]]; try discriminate.
  apply Permutation_length_2_inv in Hp. destruct Hp as [->| ->]; [reflexivity|].
  assert (Hne : k1 <> k2) by (inversion Hnd as [|? ? Hin _]; intro; subst; apply Hin; now left).
  unfold head_roles, secondary, output_names, dkeys. cbn [map fst filter dlookup].
  repeat match goal with
         | |- context [Nat.eqb ?a ?b] => destruct (Nat.eqb_spec a b); subst; cbn [negb filter dlookup]; try congruence
         end; reflexivity.
Qed.

(* grouping consecutive equal resources and predicting group-wise with row-wise per-resource predictors is
   the row-wise prediction of the list *)
Lemma group_runs_flat (sp : nat -> list Row -> list Out) (p : nat -> Row -> Out) :
  (forall r l, sp r l = map (p r) l) ->
  forall l, flat_map (fun g => sp (fst g) (snd g)) (group_runs l) = map (fun rx => p (fst rx) (snd rx)) l.
Proof.
  intros Hsp. induction l as [|[r x] t IH]; [reflexivity|].
  cbn [group_runs map fst snd]. rewrite <- IH.
  destruct (group_runs t) as [|[r' xs] g] eqn:E.
  - cbn. rewrite Hsp. cbn. reflexivity.
  - destruct (Nat.eqb_spec r r') as [->|Hne]; cbn; rewrite !Hsp; cbn; reflexivity.
Qed.

Lemma set_nth_nat_length l i v : length (set_nth_nat l i v) = length l.
Proof. revert i; induction l as [|y l IH]; intros [|i]; simpl; auto. Qed.

Lemma nth_set_nth_nat l i v j : i < length l ->
  nth j (set_nth_nat l i v) 0 = if Nat.eqb j i then v else nth j l 0.
Proof.
  revert i j; induction l as [|y l IH]; intros [|i] [|j] H; simpl in *; try lia; try reflexivity.
  apply IH. lia.
Qed.

Lemma fold_set_length (ps : list (nat * nat)) rev :
  length (fold_left (fun rev p => set_nth_nat rev (fst p) (snd p)) ps rev) = length rev.
Proof. revert rev; induction ps as [|p ps IH]; intros rev; simpl; [reflexivity|]. rewrite IH. apply set_nth_nat_length. Qed.

Lemma fold_set_other (ps : list (nat * nat)) rev a :
  ~ In a (map fst ps) ->
  nth a (fold_left (fun rev p => set_nth_nat rev (fst p) (snd p)) ps rev) 0 = nth a rev 0.
Proof.
  revert rev; induction ps as [|[k v] ps IH]; intros rev Hn; simpl; [reflexivity|].
  rewrite IH by (intro; apply Hn; now right).
  destruct (Nat.lt_ge_cases k (length rev)) as [Hk|Hk].
  - rewrite nth_set_nth_nat by exact Hk. destruct (Nat.eqb_spec a k) as [->|]; [exfalso; apply Hn; now left | reflexivity].
  - assert (E : set_nth_nat rev k v = rev).
    { clear -Hk. revert k Hk; induction rev as [|y rev IH]; intros [|k] Hk; simpl in *; try reflexivity; try lia. now rewrite IH by lia. }
    now rewrite E.
Qed.

Lemma fold_set_spec (ps : list (nat * nat)) rev a i :
  NoDup (map fst ps) -> In (a, i) ps -> a < length rev ->
  nth a (fold_left (fun rev p => set_nth_nat rev (fst p) (snd p)) ps rev) 0 = i.
Proof.
  revert rev; induction ps as [|[k v] ps IH]; intros rev Hnd Hin Ha; [inversion Hin|].
  simpl in *. inversion Hnd as [|? ? Hk Hnd']; subst. destruct Hin as [E|Hin].
  - inversion E; subst. rewrite fold_set_other by exact Hk. rewrite nth_set_nth_nat by exact Ha. now rewrite Nat.eqb_refl.
  - apply IH; [exact Hnd' | exact Hin | now rewrite set_nth_nat_length].
Qed.

Lemma map_fst_combine_eq {A B} (a : list A) (b : list B) : length a = length b -> map fst (combine a b) = a.
Proof. revert b; induction a as [|x a IH]; intros [|y b] H; simpl in *; try discriminate; try reflexivity. f_equal. apply IH. lia. Qed.

(* reverse_ind is the inverse permutation: ind[reverse_ind[k]] = k *)
Lemma reverse_ind_spec (ind : list nat) :
  Permutation (seq 0 (length ind)) ind ->
  length (reverse_ind ind) = length ind /\
  forall k, k < length ind -> nth k (reverse_ind ind) 0 < length ind /\ nth (nth k (reverse_ind ind) 0) ind 0 = k.
Proof.
  intros Hp. unfold reverse_ind. split; [rewrite fold_set_length; apply repeat_length|].
  intros k Hk.
  assert (Hin : In k ind) by (apply (Permutation_in k Hp), in_seq; lia).
  destruct (In_nth ind k 0 Hin) as [m [Hm Hnth]].
  assert (Hnd : NoDup ind) by (apply (Permutation_NoDup Hp), seq_NoDup).
  assert (E : nth k (fold_left (fun rev p => set_nth_nat rev (fst p) (snd p)) (combine ind (seq 0 (length ind)))
                      (repeat 0 (length ind))) 0 = m).
  { apply fold_set_spec.
    - rewrite map_fst_combine_eq by (now rewrite seq_length). exact Hnd.
    - rewrite <- Hnth. replace m with (nth m (seq 0 (length ind)) 0) at 2 by (rewrite seq_nth; lia).
      rewrite <- combine_nth by (now rewrite seq_length). apply nth_In. rewrite combine_length, seq_length. lia.
    - now rewrite repeat_length. }
  rewrite E. split; [exact Hm | exact Hnth].
Qed.

Lemma nth_map_lt {A B} (f : A -> B) l k d d' : k < length l -> nth k (map f l) d = f (nth k l d').
Proof. revert k; induction l as [|y l IH]; intros [|k] H; simpl in *; try lia; auto. apply IH; lia. Qed.

(* predict on a batch of rows with mixed resources = row-wise predict, for every permutation the sort returns *)
Theorem mixed_predict_rowwise (sp : nat -> list Row -> list Out) (p : nat -> Row -> Out)
        (ind : list nat) (rows : list (nat * Row)) (d0 : nat * Row) (o0 : Out) :
  (forall r l, sp r l = map (p r) l) -> length ind = length rows -> Permutation (seq 0 (length rows)) ind ->
  mixed_predict sp ind rows d0 o0 = map (fun rx => p (fst rx) (snd rx)) rows.
Proof.
  intros Hsp Hlen Hp. unfold mixed_predict. rewrite (group_runs_flat sp p Hsp).
  rewrite <- Hlen in Hp. destruct (reverse_ind_spec ind Hp) as [Hl Hk].
  apply nth_ext with (d := o0) (d' := o0).
  - now rewrite !map_length, Hl.
  - intros k Hkl. rewrite map_length, Hl in Hkl. destruct (Hk k Hkl) as [Hb He].
    rewrite (nth_map_lt _ _ k o0 0) by (now rewrite Hl).
    rewrite map_map. rewrite (nth_map_lt _ _ _ o0 0) by exact Hb. rewrite He.
    rewrite (nth_map_lt _ _ k o0 d0) by lia. reflexivity.
Qed.
End PlumbingProofs.

Lemma indep_predict_rowwise {Row Out : Type} (sp : nat -> list Row -> list Out) (p : nat -> Row -> Out)
        (ind : list nat) (rows : list (nat * Row)) (d0 : nat * Row) (o0 : Out) :
  (forall r l, sp r l = map (p r) l) -> length ind = length rows -> Permutation (seq 0 (length rows)) ind ->
  indep_predict sp ind rows d0 o0 = map (fun rx => p (fst rx) (snd rx)) rows.
Proof.
  intros Hsp Hlen Hp. unfold indep_predict. destruct (all_same (map fst rows)) eqn:E.
  - destruct rows as [|[r x] t]; [reflexivity|]. rewrite Hsp. cbn [map fst snd all_same] in *.
    f_equal. rewrite map_map. apply map_ext_in. intros [r' x'] Hin. cbn.
    rewrite forallb_forall in E. specialize (E r' (in_map fst _ _ Hin)). apply Nat.eqb_eq in E. now subst.
  - now apply mixed_predict_rowwise.
Qed.
