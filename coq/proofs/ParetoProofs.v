(* ParetoProofs.v — lemmas about model/Pareto.v (C19). *)
From Verif Require Import model.Base model.Pareto.
From Coq Require Import Permutation.

Definition Dom (a x : vec) : Prop := dom a x = true.

(* --- the order on extended rationals ------------------------------------- *)

Lemma xleb_refl a : xleb a a = true.
Proof. destruct a; simpl; try reflexivity. apply Qleb_le. apply Qle_refl. Qed.

Lemma xltb_irrefl a : xltb a a = false.
Proof. unfold xltb. rewrite xleb_refl. reflexivity. Qed.

Lemma xleb_trans a b c : xleb a b = true -> xleb b c = true -> xleb a c = true.
Proof.
  destruct a, b, c; simpl; intros H1 H2; try reflexivity; try discriminate.
  apply Qleb_le. apply Qleb_le in H1. apply Qleb_le in H2. eapply Qle_trans; eauto.
Qed.

Lemma xleb_total a b : xleb a b = true \/ xleb b a = true.
Proof.
  destruct a, b; simpl; auto.
  destruct (Qlt_le_dec q q0) as [H|H]; [left; apply Qleb_le; apply Qlt_le_weak; exact H | right; apply Qleb_le; exact H].
Qed.

Lemma xltb_leb_trans a b c : xltb a b = true -> xleb b c = true -> xltb a c = true.
Proof.
  unfold xltb. rewrite !negb_true_iff. intros H1 H2.
  destruct (xleb c a) eqn:E; [|reflexivity].
  rewrite (xleb_trans b c a H2 E) in H1. discriminate.
Qed.

Lemma xle_fin p q : xle (Fin p) (Fin q) <-> p <= q.
Proof. unfold xle. simpl. apply Qleb_le. Qed.
Lemma xlt_fin p q : xlt (Fin p) (Fin q) <-> p < q.
Proof.
  unfold xlt, xltb. simpl. rewrite negb_true_iff. split; intro H.
  - apply Qnot_le_lt. intro Hc. apply Qleb_le in Hc. congruence.
  - destruct (Qleb q p) eqn:E; [|reflexivity]. apply Qleb_le in E. exfalso. eapply Qlt_not_le; eauto.
Qed.
Lemma xle_pinf a : xle a PInf.  Proof. destruct a; reflexivity. Qed.
Lemma xle_ninf a : xle NInf a.  Proof. destruct a; reflexivity. Qed.
Lemma xlt_fin_pinf p : xlt (Fin p) PInf.  Proof. reflexivity. Qed.
Lemma xlt_ninf_fin p : xlt NInf (Fin p).  Proof. reflexivity. Qed.
Lemma xlt_pinf_pinf : ~ xlt PInf PInf.  Proof. discriminate. Qed.

(* --- dominance is a strict partial order on vectors of equal length ----- *)

Lemma all_le_refl a : all_le a a = true.
Proof. induction a as [|p a IH]; simpl; [reflexivity|]. rewrite IH, andb_true_r. apply xleb_refl. Qed.

Lemma any_lt_irrefl a : any_lt a a = false.
Proof.
  induction a as [|p a IH]; simpl; [reflexivity|]. rewrite IH, orb_false_r. apply xltb_irrefl.
Qed.

Lemma dom_irrefl a : dom a a = false.
Proof. unfold dom. rewrite any_lt_irrefl. apply andb_false_r. Qed.

Lemma all_le_trans a : forall b c, length a = length b -> length b = length c ->
  all_le a b = true -> all_le b c = true -> all_le a c = true.
Proof.
  induction a as [|p a IH]; intros [|q b] [|r c] H1 H2 Hab Hbc; simpl in *; try discriminate; try reflexivity.
  apply andb_true_iff in Hab as [Hpq Hab]. apply andb_true_iff in Hbc as [Hqr Hbc].
  apply andb_true_iff; split.
  - eapply xleb_trans; eauto.
  - apply (IH b c); [lia|lia|assumption|assumption].
Qed.

Lemma any_lt_le_trans a : forall b c, length a = length b -> length b = length c ->
  any_lt a b = true -> all_le a b = true -> all_le b c = true -> any_lt a c = true.
Proof.
  induction a as [|p a IH]; intros [|q b] [|r c] H1 H2 Hlt Hab Hbc; simpl in *; try discriminate.
  apply andb_true_iff in Hab as [Hpq Hab]. apply andb_true_iff in Hbc as [Hqr Hbc].
  apply orb_true_iff in Hlt as [Hlt|Hlt]; apply orb_true_iff.
  - left. eapply xltb_leb_trans; eauto.
  - right. apply (IH b c); [lia|lia|assumption|assumption|assumption].
Qed.

Lemma dom_trans a b c : length a = length b -> length b = length c ->
  Dom a b -> Dom b c -> Dom a c.
Proof.
  unfold Dom, dom. intros H1 H2 Hab Hbc.
  apply andb_true_iff in Hab as [Lab Sab]. apply andb_true_iff in Hbc as [Lbc Sbc].
  apply andb_true_iff; split.
  - eapply all_le_trans; eauto.
  - eapply any_lt_le_trans; eauto.
Qed.

(* reading of [dom] component-wise: the textbook definition *)
Lemma all_le_spec a : forall x, length a = length x ->
  (all_le a x = true <-> forall k, (k < length a)%nat -> xle (nth k a xzero) (nth k x xzero)).
Proof.
  induction a as [|p a IH]; intros [|q x] Hl; simpl in *; try discriminate.
  - split; [intros _ k Hk; lia | reflexivity].
  - injection Hl as Hl. rewrite andb_true_iff, (IH x Hl). unfold xle. split.
    + intros [Hpq Hr] [|k] Hk; [exact Hpq | apply Hr; lia].
    + intros H. split; [apply (H 0%nat); lia | intros k Hk; apply (H (S k)); lia].
Qed.

Lemma any_lt_spec a : forall x, length a = length x ->
  (any_lt a x = true <-> exists k, (k < length a)%nat /\ xlt (nth k a xzero) (nth k x xzero)).
Proof.
  induction a as [|p a IH]; intros [|q x] Hl; simpl in *; try discriminate.
  - split; [discriminate | intros [k [Hk _]]; lia].
  - injection Hl as Hl. rewrite orb_true_iff, (IH x Hl). unfold xlt. split.
    + intros [H|[k [Hk H]]]; [exists 0%nat; split; [lia|exact H] | exists (S k); split; [lia|exact H]].
    + intros [[|k] [Hk H]]; [left; exact H | right; exists k; split; [lia|exact H]].
Qed.

Lemma dom_spec a x : length a = length x ->
  (Dom a x <-> (forall k, (k < length a)%nat -> xle (nth k a xzero) (nth k x xzero))
               /\ exists k, (k < length a)%nat /\ xlt (nth k a xzero) (nth k x xzero)).
Proof.
  intro Hl. unfold Dom, dom. rewrite andb_true_iff, (all_le_spec a x Hl), (any_lt_spec a x Hl). tauto.
Qed.


(* --- per-metric modes: maximising a metric is minimising its negation ----------------------- *)

Lemma xneg_involutive a : xneg (xneg a) = a.
Proof. destruct a; simpl; try reflexivity. f_equal. destruct q as [n d]. unfold Qopp. simpl. rewrite Z.opp_involutive. reflexivity. Qed.

Lemma xleb_neg a b : xleb (xneg a) (xneg b) = xleb b a.
Proof.
  destruct a, b; simpl; try reflexivity.
  unfold Qleb. destruct (Qle_bool (- q) (- q0)) eqn:E1, (Qle_bool q0 q) eqn:E2; try reflexivity; exfalso.
  - apply Qle_bool_iff in E1. apply Qopp_le_compat in E1. rewrite !Qopp_involutive in E1.
    apply Qle_bool_iff in E1. congruence.
  - apply Qle_bool_iff in E2. apply Qopp_le_compat in E2. apply Qle_bool_iff in E2. congruence.
Qed.

Lemma xltb_neg a b : xltb (xneg a) (xneg b) = xltb b a.
Proof. unfold xltb. rewrite xleb_neg. reflexivity. Qed.

(* "a is at least as good as x in a metric of the given mode" / "strictly better" *)
Definition better_eq (m : bool) (a x : xq) : Prop := if m then xle a x else xle x a.
Definition better (m : bool) (a x : xq) : Prop := if m then xlt a x else xlt x a.

Lemma metric_dict_length modes : forall vals, length (metric_dict modes vals) = length vals.
Proof. revert modes. intros modes vals. revert modes. induction vals as [|v vals IH]; intros [|m modes]; simpl; auto. Qed.

Lemma all_le_metric_dict : forall modes a x, length a = length x ->
  (all_le (metric_dict modes a) (metric_dict modes x) = true <->
   forall k, (k < length a)%nat -> better_eq (nth k modes true) (nth k a xzero) (nth k x xzero)).
Proof.
  intros modes a. revert modes. induction a as [|p a IH]; intros modes [|q x] Hl; simpl in *; try discriminate.
  - split; [intros _ k Hk; lia | destruct modes; reflexivity].
  - injection Hl as Hl. destruct modes as [|m modes]; simpl.
    + rewrite andb_true_iff, (IH [] x Hl). split.
      * intros [H0 Hr] [|k] Hk; [exact H0 | specialize (Hr k ltac:(lia)); destruct k; exact Hr].
      * intros H. split; [apply (H 0%nat); lia | intros k Hk; specialize (H (S k) ltac:(lia)); destruct k; exact H].
    + rewrite andb_true_iff, (IH modes x Hl). split.
      * intros [H0 Hr] [|k] Hk; [|apply Hr; lia].
        unfold better_eq, xle. destruct m; [exact H0 | rewrite <- xleb_neg; exact H0].
      * intros H. split; [|intros k Hk; apply (H (S k)); lia].
        specialize (H 0%nat ltac:(lia)). unfold better_eq, xle in H. simpl in H. destruct m; [exact H | rewrite xleb_neg; exact H].
Qed.

Lemma any_lt_metric_dict : forall modes a x, length a = length x ->
  (any_lt (metric_dict modes a) (metric_dict modes x) = true <->
   exists k, (k < length a)%nat /\ better (nth k modes true) (nth k a xzero) (nth k x xzero)).
Proof.
  intros modes a. revert modes. induction a as [|p a IH]; intros modes [|q x] Hl; simpl in *; try discriminate.
  - split; [destruct modes; discriminate | intros [k [Hk _]]; lia].
  - injection Hl as Hl. destruct modes as [|m modes]; simpl.
    + rewrite orb_true_iff, (IH [] x Hl). split.
      * intros [H|[k [Hk H]]]; [exists 0%nat; split; [lia|exact H] | exists (S k); split; [lia|destruct k; exact H]].
      * intros [[|k] [Hk H]]; [left; exact H | right; exists k; split; [lia|destruct k; exact H]].
    + rewrite orb_true_iff, (IH modes x Hl). split.
      * intros [H|[k [Hk H]]].
        -- exists 0%nat. split; [lia|]. unfold better, xlt. simpl. destruct m; [exact H | rewrite <- xltb_neg; exact H].
        -- exists (S k). split; [lia|exact H].
      * intros [[|k] [Hk H]].
        -- left. unfold better, xlt in H. simpl in H. destruct m; [exact H | rewrite xltb_neg; exact H].
        -- right. exists k. split; [lia|exact H].
Qed.

Lemma dom_metric_dict modes a x : length a = length x ->
  (Dom (metric_dict modes a) (metric_dict modes x) <->
   (forall k, (k < length a)%nat -> better_eq (nth k modes true) (nth k a xzero) (nth k x xzero)) /\
   exists k, (k < length a)%nat /\ better (nth k modes true) (nth k a xzero) (nth k x xzero)).
Proof.
  intro Hl. unfold Dom, dom. rewrite andb_true_iff, (all_le_metric_dict modes a x Hl), (any_lt_metric_dict modes a x Hl). tauto.
Qed.

(* --- mask_update -------------------------------------------------------- *)

Lemma mask_update_length a : forall X mask, length mask = length X ->
  length (mask_update a X mask) = length X.
Proof.
  induction X as [|x X IH]; intros [|m mask] H; simpl in *; try discriminate; try reflexivity.
  f_equal. apply IH. lia.
Qed.

Lemma mask_update_nth a : forall X mask j, length mask = length X -> (j < length X)%nat ->
  nth j (mask_update a X mask) false = nth j mask false && negb (dom a (nth j X [])).
Proof.
  induction X as [|x X IH]; intros [|m mask] j H Hj; simpl in *; try discriminate; try lia.
  destruct j as [|j].
  - destruct m; reflexivity.
  - apply IH; lia.
Qed.

(* --- the loop invariant -------------------------------------------------- *)

Section Loop.
  Variable X : list vec.
  Variable d : nat.
  Hypothesis Hd : Forall (fun x => length x = d) X.

  Lemma len_nth j : (j < length X)%nat -> length (nth j X []) = d.
  Proof. intro Hj. rewrite Forall_forall in Hd. apply Hd. apply nth_In. exact Hj. Qed.

  Definition Inv (k : nat) (mask : list bool) : Prop :=
    length mask = length X /\
    (forall j, (j < length X)%nat -> nth j mask false = false ->
               exists i, (i < k)%nat /\ Dom (nth i X []) (nth j X [])) /\
    (forall j, (j < length X)%nat -> nth j mask false = true ->
               forall i, (i < k)%nat -> ~ Dom (nth i X []) (nth j X [])).

  Lemma inv_step k mask : (k < length X)%nat -> Inv k mask ->
    Inv (S k) (if nth k mask false then mask_update (nth k X []) X mask else mask).
  Proof.
    intros Hk [Hlen [H1 H2]]. destruct (nth k mask false) eqn:Ek.
    - split; [apply mask_update_length; exact Hlen|]. split.
      + intros j Hj Hf. rewrite mask_update_nth in Hf by assumption.
        apply andb_false_iff in Hf as [Hf|Hf].
        * destruct (H1 j Hj Hf) as [i [Hi Hdom]]. exists i. split; [lia|exact Hdom].
        * exists k. split; [lia|]. unfold Dom. apply negb_false_iff. exact Hf.
      + intros j Hj Ht i Hi. rewrite mask_update_nth in Ht by assumption.
        apply andb_true_iff in Ht as [Ht Hn]. apply negb_true_iff in Hn.
        assert (Hc : (i < k)%nat \/ i = k) by lia. destruct Hc as [Hc|Hc].
        * apply H2; assumption.
        * subst i. unfold Dom. rewrite Hn. discriminate.
    - split; [exact Hlen|]. split.
      + intros j Hj Hf. destruct (H1 j Hj Hf) as [i [Hi Hdom]]. exists i. split; [lia|exact Hdom].
      + intros j Hj Ht i Hi.
        assert (Hc : (i < k)%nat \/ i = k) by lia. destruct Hc as [Hc|Hc].
        * apply H2; assumption.
        * subst i. intro Hdom.
          destruct (H1 k Hk Ek) as [i' [Hi' Hdi]].
          apply (H2 j Hj Ht i' Hi').
          eapply dom_trans; [| |exact Hdi|exact Hdom]; rewrite !len_nth by lia; reflexivity.
  Qed.

  Lemma pe_loop_inv : forall todo done mask,
    X = done ++ todo -> Inv (length done) mask ->
    Inv (length X) (pe_loop X todo (length done) mask).
  Proof.
    induction todo as [|a todo IH]; intros done mask HX HI; simpl.
    - rewrite HX, app_nil_r. exact HI.
    - assert (Ha : nth (length done) X [] = a) by (rewrite HX; apply nth_middle).
      assert (Hk : (length done < length X)%nat) by (rewrite HX, app_length; simpl; lia).
      specialize (IH (done ++ [a]) (if nth (length done) mask false then mask_update a X mask else mask)).
      rewrite app_length in IH. simpl in IH. replace (length done + 1)%nat with (S (length done)) in IH by lia.
      apply IH.
      + rewrite <- app_assoc. exact HX.
      + rewrite <- Ha. apply inv_step; assumption.
  Qed.

  Lemma nth_repeat_true j n : (j < n)%nat -> nth j (repeat true n) false = true.
  Proof. revert j. induction n as [|n IH]; intros [|j] H; simpl; try lia; try reflexivity. apply IH. lia. Qed.

  Lemma pareto_efficient_inv : Inv (length X) (pareto_efficient X).
  Proof.
    unfold pareto_efficient. apply (pe_loop_inv X []).
    - reflexivity.
    - split; [apply repeat_length|]. split.
      + intros j Hj Hf. rewrite nth_repeat_true in Hf by exact Hj. discriminate.
      + intros j Hj _ i Hi. simpl in Hi. lia.
  Qed.

  Lemma pareto_efficient_length : length (pareto_efficient X) = length X.
  Proof. apply pareto_efficient_inv. Qed.

  (* C19, first sentence: the mask marks exactly the points no other point dominates *)
  Lemma pareto_mask_exact j : (j < length X)%nat ->
    (nth j (pareto_efficient X) false = true <->
     ~ exists i, (i < length X)%nat /\ Dom (nth i X []) (nth j X [])).
  Proof.
    intro Hj. destruct pareto_efficient_inv as [_ [H1 H2]]. split.
    - intros Ht [i [Hi Hdom]]. exact (H2 j Hj Ht i Hi Hdom).
    - intro Hn. destruct (nth j (pareto_efficient X) false) eqn:E; [reflexivity|].
      exfalso. apply Hn. apply H1; assumption.
  Qed.
End Loop.

(* --- a finite non-empty set has a non-dominated element ----------------- *)

Lemma exists_minimal (L : list vec) d : Forall (fun x => length x = d) L -> L <> [] ->
  exists m, In m L /\ forall y, In y L -> ~ Dom y m.
Proof.
  induction L as [|x L IH]; intros Hd Hne; [congruence|].
  inversion Hd as [|? ? Hx HL]; subst.
  destruct L as [|x' L'].
  - exists x. split; [left; reflexivity|]. intros y [Hy|[]]. subst y. unfold Dom. rewrite dom_irrefl. discriminate.
  - destruct (IH HL) as [m [Hm Hmin]]; [discriminate|].
    assert (Lm : length m = length x) by (rewrite Forall_forall in HL; rewrite (HL m Hm); reflexivity).
    destruct (dom x m) eqn:Exm.
    + exists x. split; [left; reflexivity|]. intros y [Hy|Hy].
      * subst y. unfold Dom. rewrite dom_irrefl. discriminate.
      * intro Hyx. apply (Hmin y Hy). eapply dom_trans; [| |exact Hyx|exact Exm].
        -- rewrite Forall_forall in HL. rewrite (HL y Hy). reflexivity.
        -- symmetry. exact Lm.
    + exists m. split; [right; exact Hm|]. intros y [Hy|Hy].
      * subst y. unfold Dom. rewrite Exm. discriminate.
      * apply Hmin. exact Hy.
Qed.

(* --- select ------------------------------------------------------------- *)

Lemma select_In {A} : forall (mask : list bool) (l : list A) x, In x (select mask l) -> In x l.
Proof.
  induction mask as [|m mask IH]; intros [|y l] x H; simpl in *; try contradiction.
  destruct m; [destruct H as [H|H]; [left; exact H|right; apply IH; exact H] | right; apply IH; exact H].
Qed.

Lemma select_nth {A} (dflt : A) : forall (mask : list bool) (l : list A), length mask = length l -> NoDup l ->
  forall k, (k < length l)%nat -> (In (nth k l dflt) (select mask l) <-> nth k mask false = true).
Proof.
  induction mask as [|m mask IH]; intros [|y l] Hl Hnd k Hk; simpl in *; try discriminate; try lia.
  inversion Hnd as [|? ? Hy Hnd']; subst. destruct k as [|k].
  - destruct m; simpl.
    + split; [reflexivity | left; reflexivity].
    + split; [intro H; exfalso; apply Hy; eapply select_In; exact H | discriminate].
  - assert (Hk' : (k < length l)%nat) by lia.
    destruct m; simpl.
    + split.
      * intros [H|H]; [exfalso; apply Hy; rewrite H; apply nth_In; exact Hk' | apply (IH l); try assumption; lia].
      * intro H. right. apply (IH l); try assumption; lia.
    + apply (IH l); try assumption; lia.
Qed.

Lemma select_NoDup {A} : forall (mask : list bool) (l : list A), NoDup l -> NoDup (select mask l).
Proof.
  induction mask as [|m mask IH]; intros [|y l] H; simpl; try constructor.
  inversion H as [|? ? Hy Hnd]; subst. destruct m.
  - constructor; [intro Hin; apply Hy; eapply select_In; exact Hin | apply IH; exact Hnd].
  - apply IH; exact Hnd.
Qed.

Lemma select_split_perm {A} : forall (mask : list bool) (l : list A), length mask = length l ->
  Permutation (select mask l ++ select (map negb mask) l) l.
Proof.
  induction mask as [|m mask IH]; intros [|y l] H; simpl in *; try discriminate; [constructor|].
  destruct m; simpl.
  - constructor. apply IH. lia.
  - eapply Permutation_trans; [apply Permutation_sym, Permutation_middle|]. constructor. apply IH. lia.
Qed.

Lemma select_length_le {A} : forall (mask : list bool) (l : list A), (length (select mask l) <= length l)%nat.
Proof.
  induction mask as [|m mask IH]; intros [|y l]; simpl; try lia. destruct m; simpl; specialize (IH l); lia.
Qed.

(* --- layers ------------------------------------------------------------- *)

Section Layers.
  Variable X : list vec.
  Variable d : nat.
  Hypothesis Hd : Forall (fun x => length x = d) X.

  Definition row (i : nat) : vec := nth i X [].

  (* j belongs to the Pareto front of the index set [rem] *)
  Definition is_front (rem : list nat) (j : nat) : Prop :=
    In j rem /\ ~ exists i, In i rem /\ Dom (row i) (row j).

  Lemma rows_length rem : length (rows X rem) = length rem.
  Proof. unfold rows. apply map_length. Qed.

  Lemma rows_nth rem k : (k < length rem)%nat -> nth k (rows X rem) [] = row (nth k rem 0%nat).
  Proof.
    intro Hk. unfold rows, row.
    rewrite (nth_indep _ [] (nth 0 X [])) by (rewrite map_length; exact Hk).
    apply (map_nth (fun i => nth i X [])).
  Qed.

  Lemma rows_Forall rem : Forall (fun i => (i < length X)%nat) rem ->
    Forall (fun x => length x = d) (rows X rem).
  Proof.
    intro H. unfold rows. rewrite Forall_forall in *. intros x Hx.
    apply in_map_iff in Hx as [i [Hi Hin]]. subst x. apply Hd. apply nth_In. apply H. exact Hin.
  Qed.

  (* the mask computed on X[remaining] selects exactly the front of [remaining] *)
  Lemma front_select rem : NoDup rem -> Forall (fun i => (i < length X)%nat) rem ->
    forall j, In j (select (pareto_efficient (rows X rem)) rem) <-> is_front rem j.
  Proof.
    intros Hnd Hb j.
    pose proof (rows_Forall rem Hb) as HF.
    pose proof (pareto_efficient_length (rows X rem) d HF) as Hlen. rewrite rows_length in Hlen.
    split.
    - intro Hin. pose proof (select_In _ _ _ Hin) as Hjr.
      destruct (In_nth _ _ 0%nat Hjr) as [k [Hk Ek]]. subst j.
      apply (select_nth 0%nat _ _ Hlen Hnd k Hk) in Hin.
      apply (pareto_mask_exact _ d HF) in Hin; [|rewrite rows_length; exact Hk].
      split; [exact Hjr|]. intros [i [Hi Hdom]]. apply Hin.
      destruct (In_nth _ _ 0%nat Hi) as [k' [Hk' Ek']]. subst i.
      exists k'. rewrite rows_length. split; [exact Hk'|]. rewrite !rows_nth by assumption. exact Hdom.
    - intros [Hjr Hno]. destruct (In_nth _ _ 0%nat Hjr) as [k [Hk Ek]]. subst j.
      apply (select_nth 0%nat _ _ Hlen Hnd k Hk).
      apply (pareto_mask_exact _ d HF); [rewrite rows_length; exact Hk|].
      intros [k' [Hk' Hdom]]. rewrite rows_length in Hk'. rewrite !rows_nth in Hdom by assumption.
      apply Hno. exists (nth k' rem 0%nat). split; [apply nth_In; exact Hk'|exact Hdom].
  Qed.

  (* every non-empty index set has a non-empty front *)
  Lemma front_nonempty rem : rem <> [] -> Forall (fun i => (i < length X)%nat) rem ->
    exists j, is_front rem j.
  Proof.
    intros Hne Hb.
    destruct (exists_minimal (rows X rem) d (rows_Forall rem Hb)) as [m [Hm Hmin]].
    { destruct rem; [congruence|discriminate]. }
    unfold rows in Hm. apply in_map_iff in Hm as [j [Ej Hj]]. exists j. split; [exact Hj|].
    intros [i [Hi Hdom]]. apply (Hmin (row i)).
    - unfold rows. apply in_map_iff. exists i. split; [reflexivity|exact Hi].
    - rewrite <- Ej. exact Hdom.
  Qed.

  (* the standard definition of Pareto layers of an index set *)
  Inductive pareto_layering : list nat -> list (list nat) -> Prop :=
  | PL_nil : pareto_layering [] []
  | PL_cons rem L rem' Ls :
      rem <> [] -> L <> [] -> NoDup L ->
      (forall j, In j L <-> is_front rem j) ->
      (forall j, In j rem' <-> In j rem /\ ~ In j L) -> NoDup rem' ->
      pareto_layering rem' Ls -> pareto_layering rem (L :: Ls).

  Lemma select_neg_In mask : forall (rem : list nat), length mask = length rem -> NoDup rem ->
    forall j, In j (select (map negb mask) rem) <-> In j rem /\ ~ In j (select mask rem).
  Proof.
    intros rem Hl Hnd j.
    pose proof (select_split_perm mask rem Hl) as HP.
    assert (Hnd2 : NoDup (select mask rem ++ select (map negb mask) rem)).
    { eapply Permutation_NoDup; [apply Permutation_sym; exact HP|exact Hnd]. }
    split.
    - intro Hin. split; [eapply select_In; exact Hin|].
      intro Hin2. revert Hnd2 Hin Hin2. generalize (select mask rem) (select (map negb mask) rem).
      intros l1 l2 Hnd2 Hin Hin2. induction l1 as [|a l1 IH]; [contradiction|].
      simpl in Hnd2. inversion Hnd2 as [|? ? Ha Hnd3]; subst. destruct Hin2 as [E|Hin2].
      + subst a. apply Ha. apply in_or_app. right. exact Hin.
      + apply IH; assumption.
    - intros [Hin Hnot]. apply (Permutation_in _ (Permutation_sym HP)) in Hin.
      apply in_app_or in Hin as [Hin|Hin]; [contradiction|exact Hin].
  Qed.

  Lemma nd_layers_layering : forall fuel rem, (length rem <= fuel)%nat -> NoDup rem ->
    Forall (fun i => (i < length X)%nat) rem ->
    pareto_layering rem (nd_layers X rem fuel).
  Proof.
    induction fuel as [|fuel IH]; intros rem Hf Hnd Hb.
    - destruct rem; [constructor | simpl in Hf; lia].
    - destruct rem as [|r0 rem0] eqn:Er; [constructor|]. rewrite <- Er in *.
      assert (Hne : rem <> []) by (rewrite Er; discriminate).
      replace (nd_layers X rem (S fuel)) with
        (select (pareto_efficient (rows X rem)) rem ::
         nd_layers X (select (map negb (pareto_efficient (rows X rem))) rem) fuel)
        by (rewrite Er; reflexivity).
      set (mask := pareto_efficient (rows X rem)).
      assert (Hlen : length mask = length rem).
      { unfold mask. rewrite (pareto_efficient_length _ d (rows_Forall rem Hb)). apply rows_length. }
      destruct (front_nonempty rem Hne Hb) as [j0 Hj0].
      assert (Hj0in : In j0 (select mask rem)) by (apply front_select; assumption).
      eapply PL_cons with (rem' := select (map negb mask) rem).
      + exact Hne.
      + intro E. rewrite E in Hj0in. contradiction.
      + apply select_NoDup. exact Hnd.
      + intro j. apply front_select; assumption.
      + apply select_neg_In; assumption.
      + apply select_NoDup. exact Hnd.
      + apply IH.
        * assert (Hperm := select_split_perm mask rem Hlen).
          apply Permutation_length in Hperm. rewrite app_length in Hperm.
          assert (length (select mask rem) > 0)%nat by (destruct (select mask rem); [contradiction|simpl; lia]).
          lia.
        * apply select_NoDup. exact Hnd.
        * rewrite Forall_forall in *. intros i Hi. apply Hb. eapply select_In. exact Hi.
  Qed.

  Lemma NoDup_app_disj {A} (a b : list A) : NoDup a -> NoDup b -> (forall x, In x a -> ~ In x b) -> NoDup (a ++ b).
  Proof.
    induction a as [|x a IH]; intros Ha Hb Hdis; simpl; [exact Hb|].
    inversion Ha as [|? ? Hx Ha']; subst. constructor.
    - intro Hin. apply in_app_or in Hin as [Hin|Hin]; [exact (Hx Hin)|]. apply (Hdis x); [left; reflexivity|exact Hin].
    - apply IH; try assumption. intros y Hy. apply Hdis. right. exact Hy.
  Qed.

  Lemma layering_perm : forall rem Ls, pareto_layering rem Ls -> NoDup rem -> Permutation (concat Ls) rem.
  Proof.
    intros rem Ls H. induction H as [|rem L rem' Ls Hne HLne HndL HL Hrem' Hnd' Hlay IH]; intro Hnd; [constructor|].
    simpl. specialize (IH Hnd').
    apply NoDup_Permutation.
    - apply NoDup_app_disj; [exact HndL | eapply Permutation_NoDup; [apply Permutation_sym; exact IH|exact Hnd'] |].
      intros x HxL Hxc. apply (Permutation_in _ IH) in Hxc. apply Hrem' in Hxc as [_ Hn]. exact (Hn HxL).
    - exact Hnd.
    - intro x. split.
      + intro Hin. apply in_app_or in Hin as [Hin|Hin].
        * apply HL in Hin. apply Hin.
        * apply (Permutation_in _ IH) in Hin. apply Hrem' in Hin. apply Hin.
      + intro Hin. apply in_or_app. destruct (in_dec Nat.eq_dec x L) as [HxL|HxL]; [left; exact HxL|].
        right. apply (Permutation_in _ (Permutation_sym IH)). apply Hrem'. split; assumption.
  Qed.

  Lemma layering_sub : forall rem Ls, pareto_layering rem Ls -> forall x, In x (concat Ls) -> In x rem.
  Proof.
    intros rem Ls H. induction H as [|rem L rem' Ls Hne HLne HndL HL Hrem' Hnd' Hlay IH]; intros x Hx; [contradiction|].
    simpl in Hx. apply in_app_or in Hx as [Hx|Hx].
    - apply HL in Hx. apply Hx.
    - apply IH in Hx. apply Hrem' in Hx. apply Hx.
  Qed.

  (* re-ordering inside layers (the epsilon-net) keeps the layering *)
  Lemma layering_eps (eps : list nat -> list nat) (Heps : forall l, Permutation (eps l) l) :
    forall rem Ls, pareto_layering rem Ls -> pareto_layering rem (map eps Ls).
  Proof.
    intros rem Ls H. induction H as [|rem L rem' Ls Hne HLne HndL HL Hrem' Hnd' Hlay IH]; simpl; [constructor|].
    eapply PL_cons with (rem' := rem'); try assumption.
    - intro E. apply HLne. pose proof (Heps L) as HP. rewrite E in HP. apply Permutation_nil in HP. exact HP.
    - eapply Permutation_NoDup; [apply Permutation_sym; apply Heps|exact HndL].
    - intro j. rewrite <- HL. split; intro Hin.
      + eapply Permutation_in; [apply Heps|exact Hin].
      + eapply Permutation_in; [apply Permutation_sym; apply Heps|exact Hin].
    - intro j. rewrite Hrem'. split; intros [H1 H2]; split; try assumption; intro Hin; apply H2.
      + eapply Permutation_in; [apply Heps|exact Hin].
      + eapply Permutation_in; [apply Permutation_sym; apply Heps|exact Hin].
  Qed.

  (* nothing ranked later dominates anything ranked earlier *)
  Lemma layering_no_inversion : forall rem Ls, pareto_layering rem Ls ->
    forall l1 a l2 b l3, concat Ls = l1 ++ a :: l2 ++ b :: l3 -> ~ Dom (row b) (row a).
  Proof.
    intros rem Ls H. induction H as [|rem L rem' Ls Hne HLne HndL HL Hrem' Hnd' Hlay IH];
      intros l1 a l2 b l3 E.
    - simpl in E. destruct l1; discriminate.
    - simpl in E.
      assert (Hb_rem : In b rem).
      { apply (layering_sub rem (L :: Ls)).
        - eapply PL_cons; eassumption.
        - simpl. rewrite E. apply in_or_app. right. right. apply in_or_app. right. left. reflexivity. }
      (* where does the first layer end? *)
      destruct (Nat.le_gt_cases (length L) (length l1)) as [Hle|Hgt].
      + (* a and b both lie in the later layers *)
        assert (E2 : concat Ls = skipn (length L) l1 ++ a :: l2 ++ b :: l3).
        { apply (f_equal (skipn (length L))) in E.
          rewrite skipn_app, skipn_all, Nat.sub_diag in E. simpl in E.
          rewrite skipn_app in E.
          replace (length L - length l1)%nat with 0%nat in E by lia. simpl in E. exact E. }
        eapply IH. exact E2.
      + (* a lies in the first layer: it is on the front of rem, and b is in rem *)
        assert (Ha : In a L).
        { assert (E1 : nth (length l1) (L ++ concat Ls) 0%nat = a) by (rewrite E; apply nth_middle).
          rewrite app_nth1 in E1 by exact Hgt. rewrite <- E1. apply nth_In. exact Hgt. }
        apply HL in Ha. destruct Ha as [_ Hno]. intro Hdom. apply Hno. exists b. split; assumption.
  Qed.
End Layers.

(* --- nondominated_sort -------------------------------------------------- *)

Lemma seq_bound n : Forall (fun i => (i < n)%nat) (seq 0 n).
Proof. rewrite Forall_forall. intros i Hi. apply in_seq in Hi. lia. Qed.

Lemma nd_sort_layering eps (Heps : forall l, Permutation (eps l) l) X d :
  Forall (fun x => length x = d) X ->
  pareto_layering X (seq 0 (length X)) (map eps (nd_layers X (seq 0 (length X)) (length X))).
Proof.
  intro Hd. apply layering_eps; [exact Heps|].
  apply (nd_layers_layering X d Hd).
  - rewrite seq_length. lia.
  - apply seq_NoDup.
  - apply seq_bound.
Qed.

Lemma nd_sort_perm eps (Heps : forall l, Permutation (eps l) l) X d :
  Forall (fun x => length x = d) X ->
  Permutation (nondominated_sort_flat eps X) (seq 0 (length X)).
Proof.
  intro Hd. unfold nondominated_sort_flat.
  eapply layering_perm; [eapply nd_sort_layering; eassumption | apply seq_NoDup].
Qed.

Lemma nd_sort_no_inversion eps (Heps : forall l, Permutation (eps l) l) X d :
  Forall (fun x => length x = d) X ->
  forall l1 a l2 b l3, nondominated_sort_flat eps X = l1 ++ a :: l2 ++ b :: l3 ->
    ~ Dom (nth b X []) (nth a X []).
Proof.
  intros Hd l1 a l2 b l3 E.
  eapply (layering_no_inversion X); [eapply nd_sort_layering; eassumption | exact E].
Qed.

(* max_items: the truncated sort is the prefix of the full sort *)
Lemma nd_layers_max_prefix (eps : list nat -> list nat) (Hlen : forall l, length (eps l) = length l) X m :
  forall fuel rem n,
    firstn (m - n) (concat (map eps (nd_layers_max X rem fuel (Some m) n)))
    = firstn (m - n) (concat (map eps (nd_layers X rem fuel))).
Proof.
  induction fuel as [|fuel IH]; intros rem n; simpl; [reflexivity|].
  destruct rem as [|r0 rem0]; [reflexivity|].
  set (rem := r0 :: rem0). set (mask := pareto_efficient (rows X rem)).
  destruct (Nat.ltb n m) eqn:En.
  - simpl. rewrite !firstn_app, !Hlen. f_equal.
    replace (m - n - length (select mask rem))%nat with (m - (n + length (select mask rem)))%nat by lia.
    apply IH.
  - apply Nat.ltb_ge in En. replace (m - n)%nat with 0%nat by lia. reflexivity.
Qed.

Lemma nd_sort_max_prefix eps (Hlen : forall l, length (eps l) = length l) X m :
  nondominated_sort_max eps X m = firstn m (nondominated_sort_flat eps X).
Proof.
  unfold nondominated_sort_max, nondominated_sort_flat.
  pose proof (nd_layers_max_prefix eps Hlen X m (length X) (seq 0 (length X)) 0) as H.
  rewrite Nat.sub_0_r in H. exact H.
Qed.

(* --- MOASHA ------------------------------------------------------------- *)

Definition applicable (t : Z) (cur_iter : Q) (r : rung) : bool :=
  negb (Qltb cur_iter (milestone r) || in_rung t r).

Definition rung_add (r : rung) (t : Z) (m : vec) : rung :=
  {| milestone := milestone r; recorded := recorded r ++ [(t, m)] |}.

(* the decision taken at the rung the report is recorded in *)
Definition rung_stop (prio : list vec -> list Q) (rf : Q) (r : rung) (m : vec) : bool :=
  match recorded r with
  | [] => false
  | _ => let ps := prio (map snd (recorded r) ++ [m]) in moasha_stop rf ps (last ps 0)
  end.

(* the bracket scan: the first applicable rung (highest milestone first) records
   the report and decides; all other rungs are untouched; no applicable rung:
   CONTINUE and nothing changes *)
Lemma bracket_on_result_spec prio rf t it m : forall b,
  (forallb (fun r => negb (applicable t it r)) b = true /\
   bracket_on_result prio rf b t it m = (b, CONTINUE))
  \/
  (exists pre r post, b = pre ++ r :: post /\
     forallb (fun r => negb (applicable t it r)) pre = true /\ applicable t it r = true /\
     bracket_on_result prio rf b t it m =
       (pre ++ rung_add r t m :: post, if rung_stop prio rf r m then STOP else CONTINUE)).
Proof.
  induction b as [|r b IH]; simpl.
  - left. split; reflexivity.
  - unfold applicable at 1 3. destruct (Qltb it (milestone r) || in_rung t r) eqn:E; simpl.
    + destruct IH as [[Hall Heq]|[pre [r' [post [Hb [Hpre [Happ Heq]]]]]]].
      * left. rewrite Heq. split; [exact Hall|reflexivity].
      * right. exists (r :: pre), r', post. rewrite Heq, Hb. simpl.
        unfold applicable at 1. rewrite E. simpl. repeat split; assumption.
    + right. exists [], r, b. simpl. repeat split.
      * unfold applicable. rewrite E. reflexivity.
      * unfold rung_stop, rung_add. destruct (recorded r); [reflexivity|]. simpl.
        match goal with |- context [moasha_stop ?a ?b ?c] => destruct (moasha_stop a b c) end; reflexivity.
Qed.

(* rank rule in textbook form: STOP iff  #{p' < own} / n  >  1 / rf *)
Lemma moasha_stop_spec rf ps own :
  moasha_stop rf ps own = true <->
  1 / rf < inject_Z (Z.of_nat (count_lt own ps)) / inject_Z (Z.of_nat (length ps)).
Proof. unfold moasha_stop. apply Qltb_lt. Qed.

Lemma moasha_max_t prio rf max_t b t it m : max_t <= it ->
  moasha_on_trial_result prio rf max_t b t it m = (b, STOP).
Proof. intro H. unfold moasha_on_trial_result. apply Qleb_le in H. rewrite H. reflexivity. Qed.

Lemma moasha_below_max_t prio rf max_t b t it m : it < max_t ->
  moasha_on_trial_result prio rf max_t b t it m = bracket_on_result prio rf b t it m.
Proof.
  intro H. unfold moasha_on_trial_result. destruct (Qleb max_t it) eqn:E; [|reflexivity].
  apply Qleb_le in E. exfalso. eapply Qlt_not_le; eauto.
Qed.

(* a trial enters a rung at most once *)
Definition rung_nodup (r : rung) : Prop := NoDup (map fst (recorded r)).

Lemma in_rung_In t r : in_rung t r = true <-> In t (map fst (recorded r)).
Proof.
  unfold in_rung. rewrite existsb_exists, in_map_iff. split.
  - intros [e [He Ht]]. exists e. apply Z.eqb_eq in Ht. split; [exact Ht|exact He].
  - intros [e [Ht He]]. exists e. split; [exact He|apply Z.eqb_eq; exact Ht].
Qed.

Lemma bracket_on_result_nodup prio rf t it m b :
  Forall rung_nodup b -> Forall rung_nodup (fst (bracket_on_result prio rf b t it m)).
Proof.
  intro H. destruct (bracket_on_result_spec prio rf t it m b) as [[_ Heq]|[pre [r [post [Hb [_ [Happ Heq]]]]]]];
    rewrite Heq; simpl; [exact H|].
  subst b. apply Forall_app in H as [Hpre Hrp]. inversion Hrp as [|? ? Hr Hpost]; subst.
  apply Forall_app. split; [exact Hpre|]. constructor; [|exact Hpost].
  unfold rung_nodup, rung_add. simpl. rewrite map_app. simpl.
  apply NoDup_app_disj; [exact Hr | constructor; [intros []|constructor] |].
  intros x Hx [Hx'|[]]. subst x. unfold applicable in Happ. apply negb_true_iff in Happ.
  apply orb_false_iff in Happ as [_ Hin]. apply in_rung_In in Hx. congruence.
Qed.

(* on_trial_complete records the final result by the same rule as a report and changes nothing else;
   in particular it does not depend on the priority function or on rf *)
Lemma moasha_complete_spec prio rf t it m b :
  (forallb (fun r => negb (applicable t it r)) b = true /\ moasha_on_trial_complete prio rf b t it m = b)
  \/
  (exists pre r post, b = pre ++ r :: post /\
     forallb (fun r => negb (applicable t it r)) pre = true /\ applicable t it r = true /\
     moasha_on_trial_complete prio rf b t it m = pre ++ rung_add r t m :: post).
Proof.
  unfold moasha_on_trial_complete.
  destruct (bracket_on_result_spec prio rf t it m b) as [[Hn Heq]|[pre [r [post [Hb [Hpre [Happ Heq]]]]]]].
  - left. split; [exact Hn | rewrite Heq; reflexivity].
  - right. exists pre, r, post. repeat split; try assumption. rewrite Heq. reflexivity.
Qed.

Lemma moasha_complete_same_as_report prio rf max_t t it m b : ~ max_t <= it ->
  moasha_on_trial_complete prio rf b t it m = fst (moasha_on_trial_result prio rf max_t b t it m).
Proof.
  intro H. unfold moasha_on_trial_complete, moasha_on_trial_result.
  destruct (Qleb max_t it) eqn:E; [|reflexivity].
  exfalso. apply H. unfold Qleb in E. apply Qle_bool_iff in E. exact E.
Qed.

(* --- whole histories: rung entries are never lost, never duplicated ------------------------- *)
Definition rung_ext (r r' : rung) : Prop :=
  milestone r' = milestone r /\ exists suf, recorded r' = recorded r ++ suf.
Definition bracket_ext (b b' : bracket) : Prop := Forall2 rung_ext b b'.

Lemma rung_ext_refl r : rung_ext r r.
Proof. split; [reflexivity | exists []; rewrite app_nil_r; reflexivity]. Qed.

Lemma bracket_ext_refl b : bracket_ext b b.
Proof. induction b as [|r b IH]; constructor; [apply rung_ext_refl | exact IH]. Qed.

Lemma rung_ext_trans r1 r2 r3 : rung_ext r1 r2 -> rung_ext r2 r3 -> rung_ext r1 r3.
Proof.
  intros [Hm1 [s1 H1]] [Hm2 [s2 H2]]. split; [congruence|].
  exists (s1 ++ s2). rewrite H2, H1, app_assoc. reflexivity.
Qed.

Lemma bracket_ext_trans b1 : forall b2 b3, bracket_ext b1 b2 -> bracket_ext b2 b3 -> bracket_ext b1 b3.
Proof.
  induction b1 as [|r1 b1 IH]; intros b2 b3 H12 H23.
  - inversion H12; subst. inversion H23; subst. constructor.
  - inversion H12 as [|? r2 ? b2' Hr12 Hb12]; subst. inversion H23 as [|? r3 ? b3' Hr23 Hb23]; subst.
    constructor; [eapply rung_ext_trans; eassumption | eapply IH; eassumption].
Qed.

Lemma bracket_ext_app p1 p2 q1 q2 : bracket_ext p1 p2 -> bracket_ext q1 q2 -> bracket_ext (p1 ++ q1) (p2 ++ q2).
Proof. intros H1 H2. apply Forall2_app; assumption. Qed.

Lemma bracket_on_result_ext prio rf t it m b : bracket_ext b (fst (bracket_on_result prio rf b t it m)).
Proof.
  destruct (bracket_on_result_spec prio rf t it m b) as [[_ Heq]|[pre [r [post [Hb [_ [_ Heq]]]]]]];
    rewrite Heq; simpl; [apply bracket_ext_refl|].
  subst b. apply bracket_ext_app; [apply bracket_ext_refl|].
  constructor; [|apply bracket_ext_refl].
  split; [reflexivity | exists [(t, m)]; reflexivity].
Qed.

Lemma moasha_step_ext prio rf max_t b e : bracket_ext b (moasha_step prio rf max_t b e).
Proof.
  destruct e as [t it m|t it m]; simpl.
  - unfold moasha_on_trial_result. destruct (Qleb max_t it); simpl; [apply bracket_ext_refl | apply bracket_on_result_ext].
  - unfold moasha_on_trial_complete. apply bracket_on_result_ext.
Qed.

Lemma moasha_step_nodup prio rf max_t b e : Forall rung_nodup b -> Forall rung_nodup (moasha_step prio rf max_t b e).
Proof.
  intro H. destruct e as [t it m|t it m]; simpl.
  - unfold moasha_on_trial_result. destruct (Qleb max_t it); simpl; [exact H | apply bracket_on_result_nodup; exact H].
  - unfold moasha_on_trial_complete. apply bracket_on_result_nodup; exact H.
Qed.

(* for EVERY history of reports and completions, every priority function, rf and max_t: every rung keeps its
   milestone, what was recorded stays recorded in the same order (later states only append), and no trial is
   recorded twice at a rung *)
Lemma moasha_run_invariant prio rf max_t evs : forall b,
  Forall rung_nodup b ->
  bracket_ext b (moasha_run prio rf max_t b evs) /\ Forall rung_nodup (moasha_run prio rf max_t b evs).
Proof.
  unfold moasha_run. induction evs as [|e evs IH]; intros b Hb; cbn [fold_left].
  - split; [apply bracket_ext_refl | exact Hb].
  - destruct (IH (moasha_step prio rf max_t b e) (moasha_step_nodup prio rf max_t b e Hb)) as [Hext Hnd].
    split; [|exact Hnd]. eapply bracket_ext_trans; [apply moasha_step_ext | exact Hext].
Qed.

(* a prefix of a history leaves a state that the whole history only extends: rankings at a rung are always taken
   against at least the trials recorded there before *)
Lemma moasha_run_app prio rf max_t b evs1 evs2 :
  moasha_run prio rf max_t b (evs1 ++ evs2) = moasha_run prio rf max_t (moasha_run prio rf max_t b evs1) evs2.
Proof. unfold moasha_run. apply fold_left_app. Qed.
