(* GPLinProofs.v — lemmas about model/GPLin.v at the real-number instance (C08). *)
From Coq Require Import Reals Lra Lia List.
From Verif Require Import model.GPLin.
Import ListNotations.
Open Scope R_scope.

(* The real-number instance of the carrier: the SAME polymorphic definitions of
   model/GPLin.v are instantiated here for the proofs. *)
Definition NumR : Num := mkNum R 0 1 Rplus Rminus Rmult Rdiv sqrt exp ln Rabs Rmax PI.

Ltac tR := change (T NumR) with R in *.
(* [ring]/[field] want atoms whose type is syntactically R *)
Ltac gdots :=
  repeat match goal with
         | |- context [dot NumR ?a ?b] => generalize (dot NumR a b); intro
         end; tR.
Notation rvec := (list R).
Notation rmat := (list (list R)).
Notation dotR := (dot NumR).
Notation mvR := (mv NumR).
Notation gramR := (gram NumR).
Notation fsubstR := (forward_subst NumR).

(* ---- textbook predicates on list matrices ---------------------------------- *)
Definition entry (M : rmat) (i j : nat) : R := nth j (nth i M []) 0.
(* lower triangular with non-zero diagonal *)
Definition LowerTri (L : rmat) : Prop :=
  forall i, (i < length L)%nat ->
    entry L i i <> 0 /\ forall j, (i < j)%nat -> entry L i j = 0.
Definition Square (L : rmat) : Prop := Forall (fun r => length r = length L) L.

(* recursive form used by the inductions *)
Fixpoint lt_from (k : nat) (L : rmat) : Prop :=
  match L with
  | [] => True
  | row :: L' => nth k row 0 <> 0 /\ Forall (fun z => z = 0) (skipn (S k) row) /\ lt_from (S k) L'
  end.

Lemma Forall_skipn_nth (row : rvec) k :
  Forall (fun z => z = 0) (skipn k row) <-> forall j, (k <= j)%nat -> nth j row 0 = 0.
Proof.
  revert k. induction row as [|a row IH]; intros k.
  - rewrite skipn_nil. split; [intros _ j _; destruct j; reflexivity | constructor].
  - destruct k as [|k].
    + change (skipn 0 (a :: row)) with (a :: row). split.
      * intros H j _. rewrite Forall_forall in H.
        destruct (Nat.lt_ge_cases j (length (a :: row))) as [Hl|Hl].
        -- apply H. apply nth_In. exact Hl.
        -- apply nth_overflow. exact Hl.
      * intros H. apply Forall_forall. intros x Hx.
        destruct (In_nth _ _ 0 Hx) as [j [Hj Hn]]. rewrite <- Hn. apply H. lia.
    + change (skipn (S k) (a :: row)) with (skipn k row). rewrite IH. split.
      * intros H [|j] Hj; [lia|]. simpl. apply H. lia.
      * intros H j Hj. apply (H (S j)). lia.
Qed.

Lemma lt_from_spec L : forall k,
  lt_from k L <-> forall i, (i < length L)%nat ->
     nth (k + i) (nth i L []) 0 <> 0 /\ forall j, (k + i < j)%nat -> nth j (nth i L []) 0 = 0.
Proof.
  induction L as [|row L IH]; intros k.
  - simpl. split; [intros _ i Hi; lia | trivial].
  - cbn [lt_from]. rewrite IH, Forall_skipn_nth. cbn [length]. split.
    + intros [Hd [Hz Hr]] [|i] Hi.
      * rewrite Nat.add_0_r. split; [exact Hd | intros j Hj; apply Hz; lia].
      * replace (k + S i)%nat with (S k + i)%nat by lia. apply Hr. lia.
    + intros H. split; [|split].
      * specialize (H 0%nat). rewrite Nat.add_0_r in H. apply H. lia.
      * intros j Hj. specialize (H 0%nat). rewrite Nat.add_0_r in H. apply H; lia.
      * intros i Hi. replace (S k + i)%nat with (k + S i)%nat by lia. apply (H (S i)). lia.
Qed.

Lemma LowerTri_lt_from L : LowerTri L <-> lt_from 0 L.
Proof. rewrite lt_from_spec. unfold LowerTri, entry. simpl. reflexivity. Qed.

(* ---- dot ------------------------------------------------------------------- *)
Lemma dot_nil_r (a : rvec) : dotR a [] = 0.
Proof. destruct a; reflexivity. Qed.

Lemma dot_cons a x b y : dotR (a :: x) (b :: y) = a * b + dotR x y.
Proof. reflexivity. Qed.

Lemma dot_comm (a : rvec) : forall b, dotR a b = dotR b a.
Proof.
  induction a as [|x a IH]; intros [|y b]; try reflexivity.
  rewrite !dot_cons, IH. gdots; lra.
Qed.

Lemma dot_zeros_l (z : rvec) : Forall (fun t => t = 0) z -> forall v, dotR z v = 0.
Proof.
  induction 1 as [|t z Ht _ IH]; intros [|y v]; try reflexivity.
  rewrite dot_cons, IH, Ht. gdots; lra.
Qed.

(* dot against a concatenation: the part of [row] beyond [length xs] meets [zs] *)
Lemma dot_app_r (xs : rvec) : forall row zs,
  dotR row (xs ++ zs) = dotR row xs + dotR (skipn (length xs) row) zs.
Proof.
  induction xs as [|x xs IH]; intros row zs; simpl.
  - rewrite dot_nil_r. gdots; lra.
  - destruct row as [|r row]; simpl.
    + change (dotR [] zs) with 0. lra.
    + rewrite IH. gdots; lra.
Qed.

Lemma dot_app_app (a : rvec) : forall b c d, length a = length b ->
  dotR (a ++ c) (b ++ d) = dotR a b + dotR c d.
Proof.
  induction a as [|x a IH]; intros [|y b] c d Hl; simpl in *; try discriminate.
  - gdots; lra.
  - rewrite IH by lia. gdots; lra.
Qed.

Lemma skipn_nth_cons (row : rvec) : forall k, (k < length row)%nat ->
  skipn k row = nth k row 0 :: skipn (S k) row.
Proof.
  induction row as [|a row IH]; intros [|k] Hk; simpl in *; try lia; try reflexivity.
  apply IH. lia.
Qed.

Lemma nth_nonzero_lt (row : rvec) k : nth k row 0 <> 0 -> (k < length row)%nat.
Proof.
  intros H. destruct (Nat.lt_ge_cases k (length row)) as [Hl|Hl]; [exact Hl|].
  exfalso. apply H. apply nth_overflow. exact Hl.
Qed.

(* a lower-triangular row against (xs ++ y :: ys) with |xs| = its index *)
Lemma dot_row_split (row xs : rvec) y ys :
  nth (length xs) row 0 <> 0 -> Forall (fun z => z = 0) (skipn (S (length xs)) row) ->
  dotR row (xs ++ y :: ys) = dotR row xs + nth (length xs) row 0 * y.
Proof.
  intros Hd Hz. rewrite dot_app_r.
  rewrite (skipn_nth_cons row (length xs)) by (apply nth_nonzero_lt; exact Hd).
  rewrite dot_cons, (dot_zeros_l _ Hz). gdots; lra.
Qed.

(* ---- forward substitution --------------------------------------------------- *)
Lemma fsubst_aux_cons row L bi b xs :
  fsubst_aux NumR (row :: L) (bi :: b) xs =
  fsubst_aux NumR L b (xs ++ [(bi - dotR row xs) / nth (length xs) row 0]).
Proof. reflexivity. Qed.

(* right inverse: L (fsubst L b) = b *)
Lemma fsubst_aux_solves L : forall b xs,
  lt_from (length xs) L -> length b = length L ->
  exists ys, fsubst_aux NumR L b xs = xs ++ ys /\ length ys = length L /\
             mvR L (xs ++ ys) = b.
Proof.
  induction L as [|row L IH]; intros b xs Hlt Hlen.
  - destruct b; [|discriminate]. exists []. simpl. rewrite app_nil_r. auto.
  - destruct b as [|bi b]; [discriminate|]. simpl in Hlen. injection Hlen as Hlen.
    destruct Hlt as [Hd [Hz Hr]].
    set (xi := (bi - dotR row xs) / nth (length xs) row 0).
    destruct (IH b (xs ++ [xi])) as [ys [He [Hly Hmv]]].
    + rewrite app_length. simpl. replace (length xs + 1)%nat with (S (length xs)) by lia. exact Hr.
    + exact Hlen.
    + exists (xi :: ys). rewrite fsubst_aux_cons. fold xi. rewrite He, <- app_assoc. simpl.
      split; [reflexivity|]. split; [lia|].
      rewrite <- app_assoc in Hmv. simpl in Hmv. unfold mv in *. simpl. rewrite Hmv. f_equal.
      rewrite dot_row_split by assumption. unfold xi. gdots. field. exact Hd.
Qed.

Lemma fsubst_solves_rec L b : lt_from 0 L -> length b = length L ->
  mvR L (fsubstR L b) = b /\ length (fsubstR L b) = length L.
Proof.
  intros Hlt Hlen. destruct (fsubst_aux_solves L b [] Hlt Hlen) as [ys [He [Hl Hm]]].
  unfold forward_subst. rewrite He. simpl in *. auto.
Qed.

Lemma fsubst_solves L b : LowerTri L -> length b = length L -> mvR L (fsubstR L b) = b.
Proof. intros H Hl. apply fsubst_solves_rec; [apply LowerTri_lt_from; exact H | exact Hl]. Qed.

Lemma fsubst_length L b : LowerTri L -> length b = length L -> length (fsubstR L b) = length L.
Proof. intros H Hl. apply fsubst_solves_rec; [apply LowerTri_lt_from; exact H | exact Hl]. Qed.

(* left inverse: fsubst L (L x) = x *)
Lemma fsubst_aux_left_inv L : forall xs ys,
  lt_from (length xs) L -> length ys = length L ->
  fsubst_aux NumR L (mvR L (xs ++ ys)) xs = xs ++ ys.
Proof.
  induction L as [|row L IH]; intros xs ys Hlt Hlen.
  - destruct ys; [|discriminate]. reflexivity.
  - destruct ys as [|y ys]; [discriminate|]. simpl in Hlen. injection Hlen as Hlen.
    destruct Hlt as [Hd [Hz Hr]].
    unfold mv. simpl map. rewrite fsubst_aux_cons.
    rewrite dot_row_split by assumption.
    replace ((dotR row xs + nth (length xs) row 0 * y - dotR row xs) / nth (length xs) row 0) with y
      by (gdots; field; exact Hd).
    replace (xs ++ y :: ys) with ((xs ++ [y]) ++ ys) by (rewrite <- app_assoc; reflexivity).
    apply (IH (xs ++ [y]) ys).
    + rewrite app_length. simpl. replace (length xs + 1)%nat with (S (length xs)) by lia. exact Hr.
    + exact Hlen.
Qed.

Lemma fsubst_left_inv L x : LowerTri L -> length x = length L -> fsubstR L (mvR L x) = x.
Proof.
  intros H Hl. apply LowerTri_lt_from in H.
  exact (fsubst_aux_left_inv L [] x H Hl).
Qed.
