(* GPLinProofs.v — lemmas about model/GPLin.v at the real-number instance (C08). *)
From Coq Require Import Reals Lra Lia List.
From Verif Require Import model.GPLin.
Import ListNotations.
Open Scope R_scope.

(* The real-number instance of the carrier: the SAME polymorphic definitions of
   model/GPLin.v are instantiated here for the proofs. *)
Definition NumR : Num := mkNum R 0 1 Rplus Rminus Rmult Rdiv sqrt exp ln Rabs Rmax PI.

Ltac tR := unfold mat, vec in *; change (T NumR) with R in *.
(* [ring]/[field] want atoms whose type is syntactically R *)
Ltac gdots :=
  tR;
  repeat match goal with
         | |- context [dot NumR ?a ?b] => generalize (dot NumR a b); intro
         end; tR.
Notation rvec := (list R).
Notation rmat := (list (list R)).
Notation dotR := (dot NumR).
Notation mvR := (mv NumR).
Notation gramR := (gram NumR).
Notation fsubstR := (forward_subst NumR).

(* ---- textbook predicates on list matrices ---------------------------------- *)
Definition entry (M : rmat) (i j : nat) : R := nth j (nth i M []) 0.
(* lower triangular with non-zero diagonal *)
Definition LowerTri (L : rmat) : Prop :=
  forall i, (i < length L)%nat ->
    entry L i i <> 0 /\ forall j, (i < j)%nat -> entry L i j = 0.
Definition Square (L : rmat) : Prop := Forall (fun r => length r = length L) L.

(* recursive form used by the inductions *)
Fixpoint lt_from (k : nat) (L : rmat) : Prop :=
  match L with
  | [] => True
  | row :: L' => nth k row 0 <> 0 /\ Forall (fun z => z = 0) (skipn (S k) row) /\ lt_from (S k) L'
  end.

Lemma Forall_skipn_nth (row : rvec) k :
  Forall (fun z => z = 0) (skipn k row) <-> forall j, (k <= j)%nat -> nth j row 0 = 0.
Proof.
  revert k. induction row as [|a row IH]; intros k.
  - rewrite skipn_nil. split; [intros _ j _; destruct j; reflexivity | constructor].
  - destruct k as [|k].
    + change (skipn 0 (a :: row)) with (a :: row). split.
      * intros H j _. rewrite Forall_forall in H.
        destruct (Nat.lt_ge_cases j (length (a :: row))) as [Hl|Hl].
        -- apply H. apply nth_In. exact Hl.
        -- apply nth_overflow. exact Hl.
      * intros H. apply Forall_forall. intros x Hx.
        destruct (In_nth _ _ 0 Hx) as [j [Hj Hn]]. rewrite <- Hn. apply H. lia.
    + change (skipn (S k) (a :: row)) with (skipn k row). rewrite IH. split.
      * intros H [|j] Hj; [lia|]. simpl. apply H. lia.
      * intros H j Hj. apply (H (S j)). lia.
Qed.

Lemma lt_from_spec L : forall k,
  lt_from k L <-> forall i, (i < length L)%nat ->
     nth (k + i) (nth i L []) 0 <> 0 /\ forall j, (k + i < j)%nat -> nth j (nth i L []) 0 = 0.
Proof.
  induction L as [|row L IH]; intros k.
  - simpl. split; [intros _ i Hi; lia | trivial].
  - cbn [lt_from]. rewrite IH, Forall_skipn_nth. cbn [length]. split.
    + intros [Hd [Hz Hr]] [|i] Hi.
      * rewrite Nat.add_0_r. split; [exact Hd | intros j Hj; apply Hz; lia].
      * replace (k + S i)%nat with (S k + i)%nat by lia. apply Hr. lia.
    + intros H. split; [|split].
      * specialize (H 0%nat). rewrite Nat.add_0_r in H. apply H. lia.
      * intros j Hj. specialize (H 0%nat). rewrite Nat.add_0_r in H. apply H; lia.
      * intros i Hi. replace (S k + i)%nat with (k + S i)%nat by lia. apply (H (S i)). lia.
Qed.

Lemma LowerTri_lt_from L : LowerTri L <-> lt_from 0 L.
Proof. rewrite lt_from_spec. unfold LowerTri, entry. simpl. reflexivity. Qed.

(* ---- dot ------------------------------------------------------------------- *)
Lemma dot_nil_r (a : rvec) : dotR a [] = 0.
Proof. destruct a; reflexivity. Qed.

Lemma dot_cons a x b y : dotR (a :: x) (b :: y) = a * b + dotR x y.
Proof. reflexivity. Qed.

Lemma dot_comm (a : rvec) : forall b, dotR a b = dotR b a.
Proof.
  induction a as [|x a IH]; intros [|y b]; try reflexivity.
  rewrite !dot_cons, IH. gdots; ring.
Qed.

Lemma dot_zeros_l (z : rvec) : Forall (fun t => t = 0) z -> forall v, dotR z v = 0.
Proof.
  induction 1 as [|t z Ht _ IH]; intros [|y v]; try reflexivity.
  rewrite dot_cons, IH, Ht. gdots; ring.
Qed.

(* dot against a concatenation: the part of [row] beyond [length xs] meets [zs] *)
Lemma dot_app_r (xs : rvec) : forall row zs,
  dotR row (xs ++ zs) = dotR row xs + dotR (skipn (length xs) row) zs.
Proof.
  induction xs as [|x xs IH]; intros row zs; simpl.
  - rewrite dot_nil_r. gdots; ring.
  - destruct row as [|r row]; simpl.
    + change (dotR [] zs) with 0. lra.
    + rewrite IH. gdots; ring.
Qed.

Lemma dot_app_app (a : rvec) : forall b c d, length a = length b ->
  dotR (a ++ c) (b ++ d) = dotR a b + dotR c d.
Proof.
  induction a as [|x a IH]; intros [|y b] c d Hl; simpl in *; try discriminate.
  - gdots; ring.
  - rewrite IH by lia. gdots; ring.
Qed.

Lemma skipn_nth_cons (row : rvec) : forall k, (k < length row)%nat ->
  skipn k row = nth k row 0 :: skipn (S k) row.
Proof.
  induction row as [|a row IH]; intros [|k] Hk; simpl in *; try lia; try reflexivity.
  apply IH. lia.
Qed.

Lemma nth_nonzero_lt (row : rvec) k : nth k row 0 <> 0 -> (k < length row)%nat.
Proof.
  intros H. destruct (Nat.lt_ge_cases k (length row)) as [Hl|Hl]; [exact Hl|].
  exfalso. apply H. apply nth_overflow. exact Hl.
Qed.

(* a lower-triangular row against (xs ++ y :: ys) with |xs| = its index *)
Lemma dot_row_split (row xs : rvec) y ys :
  nth (length xs) row 0 <> 0 -> Forall (fun z => z = 0) (skipn (S (length xs)) row) ->
  dotR row (xs ++ y :: ys) = dotR row xs + nth (length xs) row 0 * y.
Proof.
  intros Hd Hz. rewrite dot_app_r. tR.
  rewrite (skipn_nth_cons row (length xs)) by (apply nth_nonzero_lt; exact Hd).
  rewrite dot_cons, (dot_zeros_l _ Hz). gdots; ring.
Qed.

(* ---- forward substitution --------------------------------------------------- *)
Lemma fsubst_aux_cons (row : rvec) (L : rmat) (bi : R) (b xs : rvec) :
  fsubst_aux NumR (row :: L) (bi :: b) xs =
  fsubst_aux NumR L b (xs ++ [(bi - dotR row xs) / nth (length xs) row 0]).
Proof. reflexivity. Qed.

(* right inverse: L (fsubst L b) = b *)
Lemma fsubst_aux_solves (L : rmat) : forall (b xs : rvec),
  lt_from (length xs) L -> length b = length L ->
  exists ys : rvec, fsubst_aux NumR L b xs = xs ++ ys /\ length ys = length L /\
             mvR L (xs ++ ys) = b.
Proof.
  induction L as [|row L IH]; intros b xs Hlt Hlen.
  - destruct b; [|discriminate]. exists []. simpl. rewrite app_nil_r. auto.
  - destruct b as [|bi b]; [discriminate|]. simpl in Hlen. injection Hlen as Hlen.
    destruct Hlt as [Hd [Hz Hr]].
    set (xi := (bi - dotR row xs) / nth (length xs) row 0).
    destruct (IH b (xs ++ [xi])) as [ys [He [Hly Hmv]]].
    + rewrite app_length. simpl. rewrite Nat.add_1_r. exact Hr.
    + exact Hlen.
    + exists (xi :: ys). rewrite fsubst_aux_cons. fold xi. rewrite He, <- app_assoc. simpl.
      split; [reflexivity|]. split; [lia|].
      rewrite <- app_assoc in Hmv. simpl in Hmv. unfold mv in *. simpl. f_equal; [|exact Hmv].
      rewrite dot_row_split by assumption. unfold xi. gdots. field. exact Hd.
Qed.

Lemma fsubst_solves_rec (L : rmat) (b : rvec) : lt_from 0 L -> length b = length L ->
  mvR L (fsubstR L b) = b /\ length (fsubstR L b) = length L.
Proof.
  intros Hlt Hlen. destruct (fsubst_aux_solves L b [] Hlt Hlen) as [ys [He [Hl Hm]]].
  unfold forward_subst. tR. rewrite He. simpl in *. auto.
Qed.

Lemma fsubst_solves (L : rmat) (b : rvec) : LowerTri L -> length b = length L -> mvR L (fsubstR L b) = b.
Proof. intros H Hl. apply fsubst_solves_rec; [apply LowerTri_lt_from; exact H | exact Hl]. Qed.

Lemma fsubst_length (L : rmat) (b : rvec) : LowerTri L -> length b = length L -> length (fsubstR L b) = length L.
Proof. intros H Hl. apply fsubst_solves_rec; [apply LowerTri_lt_from; exact H | exact Hl]. Qed.

(* left inverse: fsubst L (L x) = x *)
Lemma fsubst_aux_left_inv (L : rmat) : forall (xs ys : rvec),
  lt_from (length xs) L -> length ys = length L ->
  fsubst_aux NumR L (mvR L (xs ++ ys)) xs = xs ++ ys.
Proof.
  induction L as [|row L IH]; intros xs ys Hlt Hlen.
  - destruct ys; [|discriminate]. simpl. rewrite app_nil_r. reflexivity.
  - destruct ys as [|y ys]; [discriminate|]. simpl in Hlen. injection Hlen as Hlen.
    destruct Hlt as [Hd [Hz Hr]].
    unfold mv. simpl map. rewrite fsubst_aux_cons.
    rewrite dot_row_split by assumption.
    replace ((dotR row xs + nth (length xs) row 0 * y - dotR row xs) / nth (length xs) row 0) with y
      by (gdots; field; exact Hd).
    replace (xs ++ y :: ys) with ((xs ++ [y]) ++ ys) by (rewrite <- app_assoc; reflexivity).
    apply (IH (xs ++ [y]) ys).
    + rewrite app_length. simpl. rewrite Nat.add_1_r. exact Hr.
    + exact Hlen.
Qed.

Lemma fsubst_left_inv (L : rmat) (x : rvec) : LowerTri L -> length x = length L -> fsubstR L (mvR L x) = x.
Proof.
  intros H Hl. apply LowerTri_lt_from in H.
  exact (fsubst_aux_left_inv L [] x H Hl).
Qed.

(* ---- L^T a, adjointness, gram --------------------------------------------- *)
(* vectors read "missing entry = 0": [vaddx] keeps the longer tail *)
Fixpoint vaddx (a b : rvec) : rvec :=
  match a, b with
  | x :: a', y :: b' => (x + y) :: vaddx a' b'
  | [], _ => b
  | _, [] => a
  end.
Definition vscale (c : R) (a : rvec) : rvec := map (fun x => c * x) a.
(* L^T a = sum_i a_i * row_i *)
Fixpoint tmv (M : rmat) (a : rvec) : rvec :=
  match M, a with
  | row :: M', ai :: a' => vaddx (vscale ai row) (tmv M' a')
  | _, _ => []
  end.

Lemma dot_vaddx_r (v : rvec) : forall x y, dotR v (vaddx x y) = dotR v x + dotR v y.
Proof.
  induction v as [|a v IH]; intros x y.
  - simpl. lra.
  - destruct x as [|b x]; destruct y as [|c y]; simpl.
    + lra.
    + lra.
    + lra.
    + rewrite IH. gdots; ring.
Qed.

Lemma dot_vscale_r (v : rvec) : forall c x, dotR v (vscale c x) = c * dotR v x.
Proof.
  induction v as [|a v IH]; intros c [|b x]; simpl; try lra.
  rewrite IH. gdots; ring.
Qed.

Lemma dot_adjoint (M : rmat) : forall (v a : rvec), dotR (mvR M v) a = dotR v (tmv M a).
Proof.
  induction M as [|row M IH]; intros v a.
  - simpl. rewrite dot_nil_r. reflexivity.
  - destruct a as [|ai a].
    + simpl. rewrite !dot_nil_r. reflexivity.
    + unfold mv in *. simpl. rewrite dot_vaddx_r, dot_vscale_r, IH, (dot_comm row v). gdots; ring.
Qed.

Lemma mv_gram (L : rmat) (a : rvec) : mvR (gramR L) a = mvR L (tmv L a).
Proof.
  unfold gram, mv. rewrite map_map. apply map_ext. intros ri.
  rewrite <- dot_adjoint. unfold mv. f_equal. apply map_ext. intros rj. apply dot_comm.
Qed.

Lemma vaddx_length (a : rvec) : forall b, length (vaddx a b) = Nat.max (length a) (length b).
Proof.
  induction a as [|x a IH]; intros [|y b]; simpl; try reflexivity. rewrite IH. reflexivity.
Qed.

Lemma tmv_length (L : rmat) : forall (a : rvec) n,
  Forall (fun r => length r = n) L -> length a = length L -> (0 < length L)%nat -> length (tmv L a) = n.
Proof.
  induction L as [|row L IH]; intros a n Hsq Hl Hpos.
  - simpl in Hpos. lia.
  - destruct a as [|ai a]; [discriminate|]. simpl in Hl. injection Hl as Hl.
    inversion Hsq as [|? ? Hrow Hrest]; subst.
    simpl. rewrite vaddx_length. unfold vscale. rewrite map_length.
    destruct L as [|row2 L].
    + destruct a; [|discriminate]. simpl. lia.
    + rewrite (IH a (length row) Hrest Hl) by (simpl; lia). lia.
Qed.

(* the core identity: with L L^T = A, L p = r, A alpha = r, L v = k :  <v,p> = <k,alpha> *)
Lemma solve_dot_dense (L : rmat) (p r k alpha : rvec) :
  LowerTri L -> Square L ->
  length k = length L -> length p = length L -> length alpha = length L ->
  mvR L p = r -> mvR (gramR L) alpha = r ->
  dotR (fsubstR L k) p = dotR k alpha.
Proof.
  intros Hlt Hsq Hk Hp Ha HLp HAa.
  destruct L as [|row0 L0] eqn:EL.
  - destruct k; [|discriminate]. destruct alpha; [|discriminate]. reflexivity.
  - rewrite <- EL in *.
    assert (Hpos : (0 < length L)%nat) by (rewrite EL; simpl; lia).
    assert (Hq : p = tmv L alpha).
    { rewrite <- (fsubst_left_inv L p Hlt Hp).
      rewrite HLp, <- HAa, mv_gram.
      apply fsubst_left_inv; [exact Hlt|].
      apply tmv_length; [exact Hsq | exact Ha | exact Hpos]. }
    rewrite Hq, <- dot_adjoint, fsubst_solves by assumption. reflexivity.
Qed.

Lemma pred_is_tmv (L : rmat) (p r alpha : rvec) :
  LowerTri L -> Square L -> (0 < length L)%nat ->
  length p = length L -> length alpha = length L ->
  mvR L p = r -> mvR (gramR L) alpha = r -> p = tmv L alpha.
Proof.
  intros Hlt Hsq Hpos Hp Ha HLp HAa.
  rewrite <- (fsubst_left_inv L p Hlt Hp).
  rewrite HLp, <- HAa, mv_gram.
  apply fsubst_left_inv; [exact Hlt|].
  apply tmv_length; [exact Hsq | exact Ha | exact Hpos].
Qed.

(* ---- generic list facts ------------------------------------------------------ *)
Lemma map2_length {A B C} (f : A -> B -> C) (a : list A) : forall b,
  length (map2 f a b) = Nat.min (length a) (length b).
Proof. induction a as [|x a IH]; intros [|y b]; simpl; try reflexivity. rewrite IH. reflexivity. Qed.

Lemma map2_nth {A B C} (f : A -> B -> C) (a : list A) : forall b t da db dc,
  (t < length a)%nat -> (t < length b)%nat ->
  nth t (map2 f a b) dc = f (nth t a da) (nth t b db).
Proof.
  induction a as [|x a IH]; intros [|y b] t da db dc Ha Hb; simpl in *; try lia.
  destruct t as [|t]; [reflexivity|]. apply IH; lia.
Qed.

Lemma map_nth_lt {A B} (f : A -> B) (l : list A) t da db :
  (t < length l)%nat -> nth t (map f l) db = f (nth t l da).
Proof.
  intros Hl. rewrite (nth_indep _ db (f da)) by (rewrite map_length; exact Hl). apply map_nth.
Qed.

Lemma map2_map_map {A B C D} (f : B -> C -> D) (g : A -> B) (h : A -> C) (l : list A) :
  map2 f (map g l) (map h l) = map (fun x => f (g x) (h x)) l.
Proof. induction l as [|x l IH]; simpl; [reflexivity|]. rewrite IH. reflexivity. Qed.

(* ---- predictive mean, variance, covariance = dense expressions ---------------- *)
Definition mean_entry (means : list rvec) (t j : nat) : R := nth j (nth t means []) 0.

Lemma predict_means_entry (L : rmat) (Pcols kcols : list rvec) (mstar : rvec) t j :
  (t < length kcols)%nat -> (t < length mstar)%nat -> (j < length Pcols)%nat ->
  mean_entry (predict_means NumR L Pcols kcols mstar) t j =
  dotR (fsubstR L (nth t kcols [])) (nth j Pcols []) + nth t mstar 0.
Proof.
  intros Ht Hm Hj. unfold mean_entry, predict_means. tR.
  rewrite (map2_nth _ kcols mstar t [] 0 []) by assumption.
  rewrite (map_nth_lt _ Pcols j [] 0) by assumption. reflexivity.
Qed.

Lemma raw_variances_entry (L : rmat) (kcols : list rvec) (kdiag : rvec) t :
  (t < length kcols)%nat -> (t < length kdiag)%nat ->
  nth t (raw_variances NumR L kcols kdiag) 0 =
  nth t kdiag 0 - dotR (fsubstR L (nth t kcols [])) (fsubstR L (nth t kcols [])).
Proof.
  intros Ht Hd. unfold raw_variances. tR.
  rewrite (map2_nth _ kcols kdiag t [] 0 0) by assumption. reflexivity.
Qed.

Lemma raw_variances_length (L : rmat) (kcols : list rvec) (kdiag : rvec) :
  length (raw_variances NumR L kcols kdiag) = Nat.min (length kcols) (length kdiag).
Proof. unfold raw_variances. apply map2_length. Qed.

Lemma predict_vars_entry (L : rmat) (kcols : list rvec) (kdiag : rvec) (floor : R) t :
  (t < length kcols)%nat -> (t < length kdiag)%nat ->
  nth t (predict_vars NumR L kcols kdiag floor) 0 =
  Rmax (nth t (raw_variances NumR L kcols kdiag) 0) floor.
Proof.
  intros Ht Hd. unfold predict_vars. tR.
  rewrite (map_nth_lt _ _ t 0 0) by (rewrite raw_variances_length; lia). reflexivity.
Qed.

Lemma dot_self_nonneg (v : rvec) : 0 <= dotR v v.
Proof.
  induction v as [|x v IH]; simpl; [lra|].
  pose proof (Rle_0_sqr x) as Hs. unfold Rsqr in Hs. tR. lra.
Qed.

(* the posterior state invariant: L lower triangular, L L^T = A, L P_j = (Y - m)_j *)
Definition StateOK (L A : rmat) (Pcols Rcols : list rvec) : Prop :=
  LowerTri L /\ Square L /\ gramR L = A /\ length Pcols = length Rcols /\
  forall j, (j < length Rcols)%nat ->
    length (nth j Pcols []) = length L /\ mvR L (nth j Pcols []) = nth j Rcols [].

Lemma mean_dense (L A : rmat) (Pcols Rcols kcols : list rvec) (mstar : rvec) :
  StateOK L A Pcols Rcols ->
  forall t j (alpha : rvec),
    (t < length kcols)%nat -> (t < length mstar)%nat -> (j < length Rcols)%nat ->
    length (nth t kcols []) = length L -> length alpha = length L ->
    mvR A alpha = nth j Rcols [] ->
    mean_entry (predict_means NumR L Pcols kcols mstar) t j =
    nth t mstar 0 + dotR (nth t kcols []) alpha.
Proof.
  intros [Hlt [Hsq [HA [HlP HP]]]] t j alpha Ht Hm Hj Hk Ha Hal.
  rewrite predict_means_entry by (try assumption; lia).
  destruct (HP j Hj) as [HPl HPm]. subst A.
  rewrite (solve_dot_dense L (nth j Pcols []) (nth j Rcols []) (nth t kcols []) alpha) by assumption.
  tR. lra.
Qed.

Lemma cov_dense (L A : rmat) (ks kt beta : rvec) :
  LowerTri L -> Square L -> gramR L = A ->
  length ks = length L -> length kt = length L -> length beta = length L ->
  mvR A beta = kt ->
  dotR (fsubstR L ks) (fsubstR L kt) = dotR ks beta.
Proof.
  intros Hlt Hsq HA Hs Ht Hb Hbeta. subst A.
  apply (solve_dot_dense L (fsubstR L kt) kt ks beta); try assumption.
  - apply fsubst_length; assumption.
  - apply fsubst_solves; assumption.
Qed.

Lemma var_dense (L A : rmat) (kcols : list rvec) (kdiag : rvec) (floor : R) :
  LowerTri L -> Square L -> gramR L = A ->
  forall t (beta : rvec),
    (t < length kcols)%nat -> (t < length kdiag)%nat ->
    length (nth t kcols []) = length L -> length beta = length L ->
    mvR A beta = nth t kcols [] ->
    nth t (raw_variances NumR L kcols kdiag) 0 = nth t kdiag 0 - dotR (nth t kcols []) beta /\
    nth t (predict_vars NumR L kcols kdiag floor) 0 =
      Rmax (nth t kdiag 0 - dotR (nth t kcols []) beta) floor.
Proof.
  intros Hlt Hsq HA t beta Ht Hd Hk Hb Hbeta.
  assert (E : nth t (raw_variances NumR L kcols kdiag) 0 = nth t kdiag 0 - dotR (nth t kcols []) beta).
  { rewrite raw_variances_entry by assumption.
    rewrite (cov_dense L A (nth t kcols []) (nth t kcols []) beta) by assumption. reflexivity. }
  split; [exact E|]. rewrite predict_vars_entry by assumption. rewrite E. reflexivity.
Qed.

(* floor <= variance <= prior variance *)
Lemma var_bounds (L : rmat) (kcols : list rvec) (kdiag : rvec) (floor : R) t :
  (t < length kcols)%nat -> (t < length kdiag)%nat ->
  floor <= nth t (predict_vars NumR L kcols kdiag floor) 0 /\
  (floor <= nth t kdiag 0 -> nth t (predict_vars NumR L kcols kdiag floor) 0 <= nth t kdiag 0).
Proof.
  intros Ht Hd. rewrite predict_vars_entry, raw_variances_entry by assumption.
  pose proof (dot_self_nonneg (fsubstR L (nth t kcols []))) as Hnn.
  split.
  - apply Rmax_r.
  - intros Hf. apply Rmax_lub; [tR; lra | exact Hf].
Qed.

Lemma posterior_cov_entry (L : rmat) (kcols : list rvec) (Kss : rmat) s t :
  (s < length kcols)%nat -> (t < length kcols)%nat ->
  (s < length Kss)%nat -> (t < length (nth s Kss []))%nat ->
  entry (posterior_cov NumR L kcols Kss) s t =
  entry Kss s t - dotR (fsubstR L (nth s kcols [])) (fsubstR L (nth t kcols [])).
Proof.
  intros Hs Ht HK HKr. unfold entry, posterior_cov. tR.
  rewrite (map2_nth _ _ Kss s [] [] []) by (try rewrite map_length; assumption).
  rewrite (map2_nth _ _ (nth s Kss []) t [] 0 0) by (try rewrite map_length; assumption).
  rewrite !(map_nth_lt _ kcols _ [] []) by assumption. reflexivity.
Qed.

(* pred_mat as computed by cholesky_computations satisfies L P_j = Y_j - m *)
Lemma vsub_length (a b : rvec) : length (vsub NumR a b) = Nat.min (length a) (length b).
Proof. apply map2_length. Qed.

Lemma pred_mat_state (L A : rmat) (Ycols : list rvec) (mvec : rvec) :
  LowerTri L -> Square L -> gramR L = A -> length mvec = length L ->
  Forall (fun y => length y = length L) Ycols ->
  StateOK L A (pred_mat NumR L Ycols mvec) (map (fun y => vsub NumR y mvec) Ycols).
Proof.
  intros Hlt Hsq HA Hm HY. unfold StateOK, pred_mat. tR.
  split; [exact Hlt|]. split; [exact Hsq|]. split; [exact HA|].
  split; [rewrite !map_length; reflexivity|].
  intros j Hj. rewrite map_length in Hj.
  assert (Hlen : length (vsub NumR (nth j Ycols []) mvec) = length L).
  { rewrite vsub_length. rewrite Forall_forall in HY.
    rewrite (HY (nth j Ycols [])) by (apply nth_In; exact Hj). rewrite Hm. apply Nat.min_id. }
  rewrite (map_nth_lt _ Ycols j [] []) by exact Hj.
  rewrite (map_nth_lt _ Ycols j [] []) by exact Hj.
  split; [apply fsubst_length | apply fsubst_solves]; assumption.
Qed.

(* ---- cholesky_update: rank-one extension of the posterior state ---------------- *)
(* [[A, k], [k^T, d]] *)
Definition sym_extend (A : rmat) (kvec : rvec) (d : R) : rmat :=
  map2 (fun r k => r ++ [k]) A kvec ++ [kvec ++ [d]].

Lemma dot_snoc (a b : rvec) x y : length a = length b -> dotR (a ++ [x]) (b ++ [y]) = dotR a b + x * y.
Proof. intros Hl. rewrite dot_app_app by exact Hl. simpl. gdots; ring. Qed.

Lemma gram_chol_extend (L : rmat) (lvec : rvec) (lscal : R) :
  Forall (fun r => length r = length lvec) L ->
  gramR (chol_extend NumR L lvec lscal) =
  sym_extend (gramR L) (mvR L lvec) (dotR lvec lvec + lscal * lscal).
Proof.
  intros Hsq. unfold gram, chol_extend, sym_extend, mv. tR.
  rewrite !map_app. simpl map at 1. f_equal.
  - rewrite map_map. rewrite map2_map_map. apply map_ext_in. intros ri Hri.
    rewrite Forall_forall in Hsq. rewrite map_app, map_map. simpl. f_equal.
    + apply map_ext_in. intros rj Hrj. rewrite dot_snoc by (rewrite (Hsq ri Hri), (Hsq rj Hrj); reflexivity).
      gdots; ring.
    + rewrite dot_snoc by (apply Hsq; exact Hri). gdots. f_equal. ring.
  - simpl. f_equal. rewrite map_app, map_map. simpl. f_equal.
    + apply map_ext_in. intros rj Hrj. rewrite Forall_forall in Hsq.
      rewrite dot_snoc by (symmetry; apply Hsq; exact Hrj). rewrite (dot_comm lvec rj). gdots; ring.
    + rewrite dot_snoc by reflexivity. reflexivity.
Qed.

Lemma mv_chol_extend (L : rmat) (lvec pj : rvec) (lscal x : R) :
  Forall (fun r => length r = length pj) L -> length lvec = length pj ->
  mvR (chol_extend NumR L lvec lscal) (pj ++ [x]) = mvR L pj ++ [dotR lvec pj + lscal * x].
Proof.
  intros Hsq Hl. unfold chol_extend, mv. tR. rewrite map_app, map_map. simpl. f_equal.
  - apply map_ext_in. intros r Hr. rewrite Forall_forall in Hsq. rewrite dot_snoc by (apply Hsq; exact Hr).
    gdots; ring.
  - rewrite dot_snoc by exact Hl. reflexivity.
Qed.

Lemma lt_from_app (L1 : rmat) : forall k (L2 : rmat),
  lt_from k (L1 ++ L2) <-> lt_from k L1 /\ lt_from (k + length L1) L2.
Proof.
  induction L1 as [|row L1 IH]; intros k L2; simpl.
  - rewrite Nat.add_0_r. tauto.
  - rewrite IH. replace (S k + length L1)%nat with (k + S (length L1))%nat by lia. tauto.
Qed.

Lemma lt_from_snoc0 (L : rmat) : forall k, lt_from k L -> lt_from k (map (fun r => r ++ [0]) L).
Proof.
  induction L as [|row L IH]; intros k H; [exact I|].
  destruct H as [Hd [Hz Hr]]. cbn [map lt_from].
  pose proof (nth_nonzero_lt row k Hd) as Hk.
  split; [|split].
  - rewrite app_nth1 by exact Hk. exact Hd.
  - rewrite skipn_app. apply Forall_app. split; [exact Hz|].
    replace (S k - length row)%nat with 0%nat by lia. simpl. constructor; [reflexivity|constructor].
  - apply IH. exact Hr.
Qed.

Lemma chol_extend_lower (L : rmat) (lvec : rvec) (lscal : R) :
  LowerTri L -> length lvec = length L -> lscal <> 0 -> LowerTri (chol_extend NumR L lvec lscal).
Proof.
  intros Hlt Hl Hs. apply LowerTri_lt_from. apply LowerTri_lt_from in Hlt.
  unfold chol_extend. tR. apply lt_from_app. split.
  - apply lt_from_snoc0. exact Hlt.
  - rewrite map_length. cbn [lt_from]. rewrite Nat.add_0_l. split; [|split; [|exact I]].
    + rewrite app_nth2 by lia. rewrite Hl, Nat.sub_diag. exact Hs.
    + rewrite skipn_all2; [constructor|]. rewrite app_length. simpl. lia.
Qed.

Lemma chol_extend_square (L : rmat) (lvec : rvec) (lscal : R) :
  Square L -> length lvec = length L -> Square (chol_extend NumR L lvec lscal).
Proof.
  intros Hsq Hl. unfold Square, chol_extend in *. tR.
  rewrite app_length, map_length. simpl. apply Forall_app. split.
  - apply Forall_forall. intros r Hr. apply in_map_iff in Hr as [r0 [Hr0 Hin]]. subst r.
    rewrite Forall_forall in Hsq. rewrite app_length, (Hsq r0 Hin). reflexivity.
  - constructor; [|constructor]. rewrite app_length, Hl. reflexivity.
Qed.

Lemma cholesky_update_state (L A : rmat) (Pcols Rcols : list rvec) (kvec target : rvec)
      (kscal noise mscal clamp2 : R) :
  StateOK L A Pcols Rcols -> length kvec = length L -> length target = length Pcols -> 0 < clamp2 ->
  let lvec := fsubstR L kvec in
  let raw := kscal + noise - dotR lvec lvec in
  let st := cholesky_update NumR L Pcols kvec kscal noise mscal target clamp2 in
  StateOK (fst st) (sym_extend A kvec (dotR lvec lvec + Rmax raw clamp2)) (snd st)
          (map2 (fun r tj => r ++ [tj - mscal]) Rcols target)
  /\ (clamp2 <= raw -> dotR lvec lvec + Rmax raw clamp2 = kscal + noise).
Proof.
  intros [Hlt [Hsq [HA [HlP HP]]]] Hk Ht Hc lvec raw st.
  assert (Hlv : length lvec = length L) by (apply fsubst_length; assumption).
  assert (Hmv : mvR L lvec = kvec) by (apply fsubst_solves; assumption).
  set (lsq := Rmax raw clamp2).
  assert (Hlsq : 0 < lsq) by (unfold lsq; eapply Rlt_le_trans; [exact Hc | apply Rmax_r]).
  set (lscal := sqrt lsq).
  assert (Hls : lscal <> 0) by (unfold lscal; apply Rgt_not_eq; apply sqrt_lt_R0; exact Hlsq).
  assert (Hss : lscal * lscal = lsq) by (unfold lscal; apply sqrt_sqrt; lra).
  assert (Hst : st = (chol_extend NumR L lvec lscal,
                      map2 (fun pj tj => pj ++ [((tj - mscal) - dotR lvec pj) / lscal]) Pcols target))
    by reflexivity.
  rewrite Hst. cbn [fst snd].
  assert (Hrows : forall n, n = length L -> Forall (fun r : rvec => length r = n) L).
  { intros n ->. exact Hsq. }
  split.
  - split; [apply chol_extend_lower; assumption|].
    split; [apply chol_extend_square; assumption|].
    split.
    { rewrite gram_chol_extend by (apply Hrows; exact Hlv).
      rewrite HA, Hmv, Hss. reflexivity. }
    split.
    { rewrite !map2_length. tR. rewrite HlP. reflexivity. }
    intros j Hj. rewrite map2_length in Hj. tR.
    assert (Hj1 : (j < length Rcols)%nat) by lia.
    assert (Hj2 : (j < length target)%nat) by lia.
    assert (Hj3 : (j < length Pcols)%nat) by lia.
    destruct (HP j Hj1) as [HPl HPm].
    rewrite (map2_nth _ Pcols target j [] 0 []) by assumption.
    rewrite (map2_nth _ Rcols target j [] 0 []) by assumption.
    split.
    + rewrite app_length, HPl. unfold chol_extend. rewrite app_length, map_length. reflexivity.
    + rewrite mv_chol_extend by (try apply Hrows; congruence).
      rewrite HPm. f_equal. f_equal. gdots. field. exact Hls.
  - intros Hge. unfold lsq. rewrite Rmax_left by exact Hge. unfold raw. tR. lra.
Qed.

(* ---- fantasy columns are independent right-hand sides (ANY carrier, floats included) --- *)
Section Fantasy.
Variable N : Num.

Lemma map_map2 {A B C D} (g : C -> D) (f : A -> B -> C) (a : list A) : forall b,
  map g (map2 f a b) = map2 (fun x y => g (f x y)) a b.
Proof. induction a as [|x a IH]; intros [|y b]; simpl; try reflexivity. rewrite IH. reflexivity. Qed.

Lemma map2_ext {A B C} (f f' : A -> B -> C) (a : list A) : forall b,
  (forall x y, f x y = f' x y) -> map2 f a b = map2 f' a b.
Proof. intros b H. revert b. induction a as [|x a IH]; intros [|y b]; simpl; try reflexivity. rewrite H, IH. reflexivity. Qed.

Lemma nth_map_same {A B} (f : A -> B) (l l' : list A) j (da : A) (db : B) :
  length l = length l' -> nth j l da = nth j l' da -> nth j (map f l) db = nth j (map f l') db.
Proof.
  intros Hl Hn. destruct (Nat.lt_ge_cases j (length l)) as [Hj|Hj].
  - rewrite (map_nth_lt f l j da db Hj), (map_nth_lt f l' j da db) by lia. rewrite Hn. reflexivity.
  - rewrite !nth_overflow by (rewrite map_length; lia). reflexivity.
Qed.

Lemma fantasy_means_col (L : mat N) (Y Y' : list (vec N)) (mvec : vec N) (kcols : list (vec N)) (mstar : vec N) j :
  length Y = length Y' -> nth j Y [] = nth j Y' [] ->
  map (fun row => nth j row (zero N)) (predict_means N L (pred_mat N L Y mvec) kcols mstar) =
  map (fun row => nth j row (zero N)) (predict_means N L (pred_mat N L Y' mvec) kcols mstar).
Proof.
  intros Hl Hj. unfold predict_means, pred_mat. rewrite !map_map2. apply map2_ext. intros kc ms.
  rewrite !map_map. apply (nth_map_same _ Y Y' j []); assumption.
Qed.

Lemma fantasy_vars_none (L : mat N) (Y Y' : list (vec N)) (mvec : vec N) (kcols : list (vec N)) (mstar kdiag : vec N) floor :
  snd (predict_posterior_marginals N L (pred_mat N L Y mvec) kcols mstar kdiag floor) =
  snd (predict_posterior_marginals N L (pred_mat N L Y' mvec) kcols mstar kdiag floor).
Proof. reflexivity. Qed.
End Fantasy.

(* ---- negative log marginal likelihood ------------------------------------------ *)
Definition prodR (l : rvec) : R := fold_right Rmult 1 l.

Lemma of_nat_INR n : of_nat NumR n = INR n.
Proof.
  induction n as [|n IH]; [reflexivity|]. rewrite S_INR, <- IH. reflexivity.
Qed.

Lemma prodR_nonzero (l : rvec) : Forall (fun d => d <> 0) l -> prodR l <> 0.
Proof.
  induction 1 as [|d l Hd _ IH]; simpl; [lra|].
  apply Rmult_integral_contrapositive_currified; assumption.
Qed.

Lemma sum_log_abs (l : rvec) : Forall (fun d => d <> 0) l ->
  vsum NumR (map (fun d => ln (Rabs d)) l) = ln (Rabs (prodR l)).
Proof.
  induction 1 as [|d l Hd Hl IH]; simpl.
  - rewrite Rabs_R1, ln_1. reflexivity.
  - pose proof (prodR_nonzero l Hl) as Hp.
    rewrite Rabs_mult, ln_mult by (apply Rabs_pos_lt; assumption). tR. rewrite IH. reflexivity.
Qed.

Lemma ln_sq x : x <> 0 -> ln (x * x) = 2 * ln (Rabs x).
Proof.
  intros Hx. replace (x * x) with (Rabs x * Rabs x) by (rewrite <- Rabs_mult; apply Rabs_pos_eq; apply Rle_0_sqr).
  rewrite ln_mult by (apply Rabs_pos_lt; assumption). lra.
Qed.

Lemma diag_from_nth (L : rmat) : forall k i, (i < length L)%nat ->
  nth i (diag_from NumR k L) 0 = nth (k + i) (nth i L []) 0.
Proof.
  induction L as [|row L IH]; intros k i Hi; simpl in Hi; [lia|].
  destruct i as [|i]; simpl.
  - rewrite Nat.add_0_r. reflexivity.
  - rewrite IH by lia. f_equal. lia.
Qed.

Lemma diag_from_length (L : rmat) : forall k, length (diag_from NumR k L) = length L.
Proof. induction L as [|row L IH]; intros k; simpl; [reflexivity|]. rewrite IH. reflexivity. Qed.

Lemma diag_nonzero (L : rmat) : LowerTri L -> Forall (fun d => d <> 0) (diag NumR L).
Proof.
  intros H. apply Forall_forall. intros x Hx.
  destruct (In_nth _ _ 0 Hx) as [i [Hi Hn]]. unfold diag in *. rewrite diag_from_length in Hi.
  rewrite diag_from_nth in Hn by exact Hi. subst x. apply (H i Hi).
Qed.

Lemma nlml_dense (L : rmat) (p r alpha : rvec) (detA : R) :
  LowerTri L -> Square L ->
  length p = length L -> length alpha = length L ->
  mvR L p = r -> mvR (gramR L) alpha = r ->
  detA = prodR (diag NumR L) * prodR (diag NumR L) ->
  nlml NumR L p = / 2 * (INR (length L) * ln (2 * PI) + ln detA + dotR r alpha).
Proof.
  intros Hlt Hsq Hp Ha HLp HAa Hdet.
  assert (Hquad : dotR p p = dotR r alpha).
  { destruct L as [|row0 L0] eqn:EL.
    - destruct p; [|discriminate]. simpl in HLp. subst r. reflexivity.
    - rewrite <- EL in *.
      assert (Hpos : (0 < length L)%nat) by (rewrite EL; simpl; lia).
      rewrite (pred_is_tmv L p r alpha) at 2 by assumption.
      rewrite <- dot_adjoint, HLp. reflexivity. }
  pose proof (diag_nonzero L Hlt) as Hnz.
  pose proof (prodR_nonzero _ Hnz) as Hpz.
  unfold nlml, sumsq, half, two. tR. cbn [add sub mul div one zero nlog nabs npi NumR].
  rewrite sum_log_abs by exact Hnz. rewrite of_nat_INR, Hquad, Hp, Hdet.
  rewrite (ln_sq _ Hpz).
  replace (1 + 1) with 2 by lra. gdots.
  generalize (ln (Rabs (prodR (diag NumR L)))). generalize (ln (2 * PI)). intros. field.
Qed.

(* ---- kernel facts ------------------------------------------------------------------ *)
(* textbook weighted squared distance sum_k (ib_k (x_k - y_k))^2 *)
Fixpoint wsd (ib x y : rvec) : R :=
  match ib, x, y with
  | b :: ib', a :: x', c :: y' => (b * (a - c)) * (b * (a - c)) + wsd ib' x' y'
  | _, _, _ => 0
  end.
Fixpoint sqeuclid (x y : rvec) : R :=
  match x, y with
  | a :: x', c :: y' => (a - c) * (a - c) + sqeuclid x' y'
  | _, _ => 0
  end.
(* the expression SquaredDistance.forward evaluates before anp.abs *)
Definition sqdist_raw (ib x y : rvec) : R :=
  (0 - (1 + 1)) * dotR (vmul NumR x ib) (vmul NumR y ib) + dotR (vmul NumR x ib) (vmul NumR x ib)
  + dotR (vmul NumR y ib) (vmul NumR y ib).

Lemma sqdist_unfold (ib x y : rvec) : sqdist NumR ib x y = Rabs (sqdist_raw ib x y).
Proof. reflexivity. Qed.

Lemma wsd_nonneg ib : forall x y, 0 <= wsd ib x y.
Proof.
  induction ib as [|b ib IH]; intros [|a x] [|c y]; cbn [wsd]; try lra.
  specialize (IH x y). pose proof (Rle_0_sqr (b * (a - c))) as Hs. unfold Rsqr in Hs. lra.
Qed.

Lemma sqdist_raw_wsd (x : rvec) : forall ib y, length x = length y -> sqdist_raw ib x y = wsd ib x y.
Proof.
  unfold sqdist_raw.
  induction x as [|a x IH]; intros ib [|c y] Hl; simpl in Hl; try discriminate.
  - destruct ib; simpl; lra.
  - destruct ib as [|b ib].
    + simpl. lra.
    + injection Hl as Hl. specialize (IH ib y Hl). cbn [wsd]. rewrite <- IH.
      unfold vmul. cbn [map2 dot mul add NumR]. gdots. ring.
Qed.

Lemma sqdist_textbook (ib x y : rvec) : length x = length y -> sqdist NumR ib x y = wsd ib x y.
Proof.
  intros Hl. rewrite sqdist_unfold, sqdist_raw_wsd by exact Hl. apply Rabs_pos_eq. apply wsd_nonneg.
Qed.

Lemma sqdist_sym (ib x y : rvec) : sqdist NumR ib x y = sqdist NumR ib y x.
Proof.
  rewrite !sqdist_unfold. f_equal. unfold sqdist_raw.
  rewrite (dot_comm (vmul NumR x ib) (vmul NumR y ib)). gdots. ring.
Qed.

Lemma matern52_sym (ib : rvec) (cs jit : R) (x y : rvec) : matern52 NumR ib cs jit x y = matern52 NumR ib cs jit y x.
Proof. unfold matern52. rewrite (sqdist_sym ib x y). reflexivity. Qed.

Lemma sqdist_self (ib x : rvec) : sqdist NumR ib x x = 0.
Proof.
  rewrite sqdist_unfold. unfold sqdist_raw.
  replace (_ + _ + _) with 0 by (gdots; ring). apply Rabs_R0.
Qed.

Lemma matern52_self (ib : rvec) (cs jit : R) (x : rvec) :
  matern52 NumR ib cs jit x x = (1 + sqrt jit) * exp (- sqrt jit) * cs.
Proof.
  unfold matern52. rewrite sqdist_self. unfold five, three, two. cbn [add sub mul div one zero nsqrt nexp NumR].
  tR. rewrite Rmult_0_r, Rplus_0_l. unfold Rdiv. rewrite Rmult_0_l, Rplus_0_r, Rminus_0_l. reflexivity.
Qed.

Lemma matern52_self_nojitter (ib : rvec) (cs : R) (x : rvec) : matern52 NumR ib cs 0 x x = cs.
Proof. rewrite matern52_self, sqrt_0, Ropp_0, exp_0. tR. lra. Qed.

Lemma matern52_diagonal_nth (cs : R) (X : list rvec) i : (i < length X)%nat ->
  nth i (matern52_diagonal NumR cs X) 0 = cs.
Proof.
  intros Hi. unfold matern52_diagonal. rewrite (map_nth_lt _ X i [] 0) by exact Hi.
  cbn [mul one NumR]. tR. lra.
Qed.

Lemma wsd_repeat b : forall d x y, length x = d -> length y = d ->
  wsd (repeat b d) x y = b * b * sqeuclid x y.
Proof.
  induction d as [|d IH]; intros [|a x] [|c y] Hx Hy; simpl in *; try discriminate; try ring.
  rewrite IH by lia. ring.
Qed.

Lemma ard_isotropic (b : R) d (x y : rvec) (cs jit : R) : length x = d -> length y = d ->
  ib_vector NumR true d (repeat b d) = ib_vector NumR false d [b] /\
  sqdist NumR (repeat b d) x y = b * b * sqeuclid x y /\
  matern52 NumR (ib_vector NumR true d (repeat b d)) cs jit x y =
  matern52 NumR (ib_vector NumR false d [b]) cs jit x y.
Proof.
  intros Hx Hy. split; [reflexivity|]. split; [|reflexivity].
  rewrite sqdist_textbook by congruence. apply wsd_repeat; assumption.
Qed.

(* ---- the dense system is always solvable (A = L L^T, L invertible), hence any two
        posterior states of the same system predict the same ----------------------- *)
Lemma lt_from_tl (L : rmat) : forall k, lt_from (S k) L -> lt_from k (map (@tl R) L).
Proof.
  induction L as [|row L IH]; intros k H; [exact I|].
  destruct H as [Hd [Hz Hr]]. cbn [map lt_from].
  destruct row as [|h t]; [simpl in Hd; congruence|].
  split; [exact Hd|]. split; [exact Hz|]. apply IH. exact Hr.
Qed.

Lemma tmv_cols (L : rmat) : forall (x : rvec) (a : R) (w : rvec),
  Forall (fun r => r <> []) L -> length x = length L ->
  vaddx (a :: w) (tmv L x) = (a + dotR (map (hd 0) L) x) :: vaddx w (tmv (map (@tl R) L) x).
Proof.
  induction L as [|r L IH]; intros x a w Hne Hl.
  - destruct x; [|discriminate]. simpl. destruct w; f_equal; lra.
  - destruct x as [|b x]; [discriminate|]. injection Hl as Hl.
    inversion Hne as [|? ? Hr Hrest]; subst. destruct r as [|h t]; [congruence|].
    cbn [tmv map hd tl]. change (vscale b (h :: t)) with (b * h :: vscale b t).
    rewrite (IH x (b * h) (vscale b t) Hrest Hl).
    cbn [vaddx]. rewrite dot_cons. f_equal. gdots; ring.
Qed.

Lemma vaddx_zeros_l (z : rvec) : Forall (fun t => t = 0) z -> forall p : rvec,
  (length z <= length p)%nat -> vaddx z p = p.
Proof.
  induction 1 as [|t z Ht _ IH]; intros p Hl; [destruct p; reflexivity|].
  destruct p as [|y p]; simpl in Hl; [lia|]. simpl. rewrite IH by lia. subst t. f_equal. lra.
Qed.

Lemma vscale_zeros c (z : rvec) : Forall (fun t => t = 0) z -> Forall (fun t => t = 0) (vscale c z).
Proof. induction 1 as [|t z Ht _ IH]; simpl; constructor; [subst; lra | exact IH]. Qed.

Lemma tmv_surj (n : nat) : forall (L : rmat) (p : rvec),
  length L = n -> lt_from 0 L -> Forall (fun r => length r = n) L -> length p = n ->
  exists x : rvec, length x = n /\ tmv L x = p.
Proof.
  induction n as [|n IH]; intros L p HL Hlt Hsq Hp.
  - destruct L; [|discriminate]. destruct p; [|discriminate]. exists []. split; reflexivity.
  - destruct L as [|row L']; [discriminate|]. injection HL as HL.
    destruct p as [|p0 p']; [discriminate|]. injection Hp as Hp.
    destruct Hlt as [Hd [Hz Hr]]. inversion Hsq as [|? ? Hrow Hrest]; subst.
    destruct row as [|d z]; [simpl in Hd; congruence|]. simpl in Hd, Hz, Hrow. injection Hrow as Hrow.
    assert (Hne : Forall (fun r : rvec => r <> []) L').
    { apply Forall_forall. intros r Hr'. rewrite Forall_forall in Hrest. specialize (Hrest r Hr').
      destruct r; [discriminate | congruence]. }
    destruct (IH (map (@tl R) L') p') as [x' [Hx' Ht']].
    + rewrite map_length. reflexivity.
    + apply lt_from_tl. exact Hr.
    + apply Forall_forall. intros r Hr'. apply in_map_iff in Hr' as [r0 [E Hin]]. subst r.
      rewrite Forall_forall in Hrest. specialize (Hrest r0 Hin). destruct r0; [discriminate|].
      simpl in *. lia.
    + exact Hp.
    + exists ((p0 - dotR (map (hd 0) L') x') / d :: x'). split; [simpl; lia|].
      cbn [tmv]. set (x0 := (p0 - dotR (map (hd 0) L') x') / d).
      change (vscale x0 (d :: z)) with (x0 * d :: vscale x0 z).
      rewrite tmv_cols by (try assumption; lia). rewrite Ht'. unfold x0.
      f_equal.
      * gdots. field. exact Hd.
      * apply vaddx_zeros_l; [apply vscale_zeros; exact Hz|]. unfold vscale. rewrite map_length. lia.
Qed.

Lemma gram_solvable (L : rmat) (r : rvec) :
  LowerTri L -> Square L -> length r = length L ->
  exists alpha : rvec, length alpha = length L /\ mvR (gramR L) alpha = r.
Proof.
  intros Hlt Hsq Hr.
  destruct (tmv_surj (length L) L (fsubstR L r)) as [x [Hx Ht]].
  - reflexivity.
  - apply LowerTri_lt_from. exact Hlt.
  - exact Hsq.
  - apply fsubst_length; assumption.
  - exists x. split; [exact Hx|]. rewrite mv_gram, Ht. apply fsubst_solves; assumption.
Qed.

Lemma gram_length (L : rmat) : length (gramR L) = length L.
Proof. unfold gram. apply map_length. Qed.

Lemma mv_length (M : rmat) (v : rvec) : length (mvR M v) = length M.
Proof. unfold mv. apply map_length. Qed.

(* two posterior states (e.g. updated incrementally / recomputed from scratch) of the same
   system (same A = K + sigsq I, same right-hand sides) give the same predictions *)
Lemma same_system_same_predictions (L1 L2 A : rmat) (P1 P2 Rcols kcols : list rvec) (mstar kdiag : rvec) (floor : R) :
  StateOK L1 A P1 Rcols -> StateOK L2 A P2 Rcols ->
  forall t, (t < length kcols)%nat -> length (nth t kcols []) = length L1 ->
    ((t < length kdiag)%nat ->
       nth t (predict_vars NumR L1 kcols kdiag floor) 0 = nth t (predict_vars NumR L2 kcols kdiag floor) 0) /\
    forall j, (t < length mstar)%nat -> (j < length Rcols)%nat ->
      mean_entry (predict_means NumR L1 P1 kcols mstar) t j =
      mean_entry (predict_means NumR L2 P2 kcols mstar) t j.
Proof.
  intros S1 S2 t Ht Hk.
  pose proof S1 as [Hlt1 [Hsq1 [HA1 [HlP1 HP1]]]]. pose proof S2 as [Hlt2 [Hsq2 [HA2 [HlP2 HP2]]]].
  assert (Hlen : length L2 = length L1).
  { rewrite <- (gram_length L1), <- (gram_length L2), HA1, HA2. reflexivity. }
  split.
  - intros Hd.
    destruct (gram_solvable L1 (nth t kcols []) Hlt1 Hsq1 Hk) as [beta [Hb Hbeta]].
    rewrite HA1 in Hbeta.
    destruct (var_dense L1 A kcols kdiag floor Hlt1 Hsq1 HA1 t beta Ht Hd Hk Hb Hbeta) as [_ E1].
    destruct (var_dense L2 A kcols kdiag floor Hlt2 Hsq2 HA2 t beta Ht Hd) as [_ E2]; try congruence.
  - intros j Hm Hj.
    destruct (HP1 j Hj) as [Hl1 Hm1].
    assert (Hr : length (nth j Rcols []) = length L1) by (rewrite <- Hm1; apply mv_length).
    destruct (gram_solvable L1 (nth j Rcols []) Hlt1 Hsq1 Hr) as [alpha [Ha Halpha]].
    rewrite HA1 in Halpha.
    rewrite (mean_dense L1 A P1 Rcols kcols mstar S1 t j alpha) by assumption.
    rewrite (mean_dense L2 A P2 Rcols kcols mstar S2 t j alpha) by (try assumption; congruence).
    reflexivity.
Qed.

(* ---- the model's Cholesky factorisation (row by row = repeated extension) -------- *)
Definition Symmetric (A : rmat) : Prop := forall i j, entry A i j = entry A j i.
Definition block (k : nat) (A : rmat) : rmat := map (firstn k) (firstn k A).

(* "potrf does not fail": every pivot a_kk - |lvec|^2 is positive *)
Fixpoint chol_ok (A : rmat) (L : rmat) : Prop :=
  match A with
  | [] => True
  | arow :: A' =>
      let k := length L in
      let lvec := fsubstR L (firstn k arow) in
      0 < nth k arow 0 - dotR lvec lvec /\
      chol_ok A' (chol_extend NumR L lvec (sqrt (Rmax (nth k arow 0 - dotR lvec lvec) 0)))
  end.

Lemma firstn_succ_nth {A} (l : list A) (d : A) : forall k, (k < length l)%nat ->
  firstn (S k) l = firstn k l ++ [nth k l d].
Proof.
  induction l as [|x l IH]; intros k Hk; simpl in Hk; [lia|].
  destruct k as [|k]; [reflexivity|].
  change (firstn (S (S k)) (x :: l)) with (x :: firstn (S k) l).
  change (firstn (S k) (x :: l)) with (x :: firstn k l).
  change (nth (S k) (x :: l) d) with (nth k l d).
  rewrite (IH k) by lia. reflexivity.
Qed.

Lemma nth_firstn_lt {A} (l : list A) (d : A) : forall k i, (i < k)%nat -> nth i (firstn k l) d = nth i l d.
Proof.
  induction l as [|x l IH]; intros k i Hi.
  - rewrite firstn_nil. reflexivity.
  - destruct k as [|k]; [lia|]. destruct i as [|i]; [reflexivity|].
    change (firstn (S k) (x :: l)) with (x :: firstn k l). cbn [nth]. apply IH. lia.
Qed.

Lemma In_firstn {A} (l : list A) k x : In x (firstn k l) -> In x l.
Proof. intros H. rewrite <- (firstn_skipn k l). apply in_or_app. left. exact H. Qed.

Lemma skipn_cons_nth {A} (l : list A) (d : A) : forall k x r, skipn k l = x :: r ->
  nth k l d = x /\ skipn (S k) l = r /\ (k < length l)%nat.
Proof.
  induction l as [|y l IH]; intros k x r H.
  - rewrite skipn_nil in H. discriminate.
  - destruct k as [|k].
    + simpl in H. injection H as -> ->. simpl. repeat split. lia.
    + cbn [skipn] in H. destruct (IH k x r H) as [H1 [H2 H3]]. cbn [nth skipn length]. repeat split; try assumption. lia.
Qed.

Lemma block_succ (A : rmat) k :
  Square A -> Symmetric A -> (k < length A)%nat ->
  sym_extend (block k A) (firstn k (nth k A [])) (entry A k k) = block (S k) A.
Proof.
  intros Hsq Hsym Hk. unfold sym_extend, block.
  rewrite (firstn_succ_nth A [] k Hk), map_app. cbn [map].
  assert (Hrow : length (nth k A []) = length A).
  { unfold Square in Hsq. rewrite Forall_forall in Hsq. apply Hsq. apply nth_In. exact Hk. }
  f_equal.
  - assert (E : firstn k (nth k A []) = map (fun r => nth k r 0) (firstn k A)).
    { apply (nth_ext _ _ 0 0).
      - rewrite map_length, !firstn_length. lia.
      - intros i Hi. rewrite firstn_length in Hi.
        rewrite (map_nth_lt _ (firstn k A) i [] 0) by (rewrite firstn_length; lia).
        rewrite (nth_firstn_lt _ _ k i) by lia. rewrite (nth_firstn_lt A [] k i) by lia.
        apply (Hsym k i). }
    rewrite E, map2_map_map. apply map_ext_in. intros r Hr.
    assert (Hlr : length r = length A).
    { unfold Square in Hsq. rewrite Forall_forall in Hsq. apply Hsq. apply (In_firstn A k r Hr). }
    rewrite (firstn_succ_nth r 0 k) by lia. reflexivity.
  - rewrite (firstn_succ_nth (nth k A []) 0 k) by lia. reflexivity.
Qed.

Lemma chol_rows_cons (arow : rvec) (A' L : rmat) (clamp : R) :
  chol_rows NumR (arow :: A') L clamp =
  chol_rows NumR A' (chol_extend NumR L (fsubstR L (firstn (length L) arow))
     (sqrt (Rmax (nth (length L) arow 0 - dotR (fsubstR L (firstn (length L) arow))
                                              (fsubstR L (firstn (length L) arow))) clamp))) clamp.
Proof. reflexivity. Qed.

Lemma chol_extend_length (L : rmat) (lvec : rvec) (lscal : R) :
  length (chol_extend NumR L lvec lscal) = S (length L).
Proof. unfold chol_extend. rewrite app_length, map_length. simpl. lia. Qed.

Lemma chol_rows_correct (Afull : rmat) : Square Afull -> Symmetric Afull ->
  forall (Arest L : rmat), Arest = skipn (length L) Afull ->
    LowerTri L -> Square L -> gramR L = block (length L) Afull -> chol_ok Arest L ->
    LowerTri (chol_rows NumR Arest L 0) /\ Square (chol_rows NumR Arest L 0) /\
    gramR (chol_rows NumR Arest L 0) = Afull.
Proof.
  intros HsqA Hsym Arest. induction Arest as [|arow A' IH]; intros L Hrest Hlt Hsq Hg Hok.
  - simpl. split; [exact Hlt|]. split; [exact Hsq|]. rewrite Hg.
    assert (Hk1 : (length Afull <= length L)%nat).
    { pose proof (skipn_length (length L) Afull) as Hl. rewrite <- Hrest in Hl. simpl in Hl. lia. }
    unfold block. rewrite firstn_all2 by exact Hk1.
    rewrite <- (map_id Afull) at 2. apply map_ext_in. intros r Hr.
    apply firstn_all2. unfold Square in HsqA. rewrite Forall_forall in HsqA. rewrite (HsqA r Hr). exact Hk1.
  - symmetry in Hrest. destruct (skipn_cons_nth Afull [] (length L) arow A' Hrest) as [Hrow [Hskip Hk]].
    destruct Hok as [Hpos Hok]. rewrite chol_rows_cons.
    set (k := length L) in *.
    set (lvec := fsubstR L (firstn k arow)) in *.
    set (raw := nth k arow 0 - dotR lvec lvec) in *.
    assert (Hrl : length arow = length Afull).
    { unfold Square in HsqA. rewrite Forall_forall in HsqA. apply HsqA. rewrite <- Hrow. apply nth_In. exact Hk. }
    assert (Hfl : length (firstn k arow) = length L) by (rewrite firstn_length; fold k; lia).
    assert (Hlv : length lvec = length L) by (apply fsubst_length; assumption).
    assert (Hmv : mvR L lvec = firstn k arow) by (apply fsubst_solves; assumption).
    assert (Hmax : Rmax raw 0 = raw) by (apply Rmax_left; lra).
    rewrite Hmax in *.
    assert (Hls : sqrt raw <> 0) by (apply Rgt_not_eq; apply sqrt_lt_R0; exact Hpos).
    assert (Hss : sqrt raw * sqrt raw = raw) by (apply sqrt_sqrt; lra).
    apply IH.
    + rewrite chol_extend_length. fold k. symmetry. exact Hskip.
    + apply chol_extend_lower; assumption.
    + apply chol_extend_square; assumption.
    + rewrite chol_extend_length. fold k.
      assert (HF : Forall (fun r : rvec => length r = length lvec) L).
      { apply Forall_forall. intros r Hr. unfold Square in Hsq. rewrite Forall_forall in Hsq.
        rewrite (Hsq r Hr). symmetry. exact Hlv. }
      rewrite (gram_chol_extend L lvec (sqrt raw) HF).
      rewrite Hg, Hmv, Hss. fold k. rewrite <- (block_succ Afull k HsqA Hsym Hk). rewrite Hrow.
      f_equal. f_equal. f_equal. unfold entry. rewrite Hrow. unfold raw. tR. lra.
    + exact Hok.
Qed.

Lemma cholesky_correct (A : rmat) :
  Square A -> Symmetric A -> chol_ok A [] ->
  LowerTri (cholesky NumR A) /\ Square (cholesky NumR A) /\ gramR (cholesky NumR A) = A.
Proof.
  intros Hsq Hsym Hok. unfold cholesky. apply (chol_rows_correct A Hsq Hsym A []).
  - reflexivity.
  - intros i Hi. simpl in Hi. lia.
  - constructor.
  - reflexivity.
  - exact Hok.
Qed.

Lemma cholesky_computations_state (K : rmat) (sigsq : R) (Ycols : list rvec) (mvec : rvec) :
  let A := add_diag NumR K sigsq in
  Square A -> Symmetric A -> chol_ok A [] -> length mvec = length A ->
  Forall (fun y => length y = length A) Ycols ->
  StateOK (fst (cholesky_computations NumR K sigsq Ycols mvec)) A
          (snd (cholesky_computations NumR K sigsq Ycols mvec))
          (map (fun y => vsub NumR y mvec) Ycols).
Proof.
  intros A Hsq Hsym Hok Hm HY. unfold cholesky_computations. fold A. cbn [fst snd].
  destruct (cholesky_correct A Hsq Hsym Hok) as [Hlt [HsqL Hg]].
  assert (Hlen : length (cholesky NumR A) = length A).
  { transitivity (length (gramR (cholesky NumR A))); [symmetry; apply gram_length | f_equal; exact Hg]. }
  apply pred_mat_state; try assumption.
  - tR. rewrite Hlen. exact Hm.
  - tR. rewrite Hlen. exact HY.
Qed.

(* AddJitterOp forward only touches the diagonal *)
Lemma nth_skipn_add {A} (l : list A) (d : A) : forall k i, nth i (skipn k l) d = nth (k + i) l d.
Proof.
  induction l as [|x l IH]; intros k i.
  - rewrite skipn_nil. destruct i, k; reflexivity.
  - destruct k as [|k]; [reflexivity|]. cbn [skipn Nat.add nth]. apply IH.
Qed.

Lemma add_diag_row (row : rvec) (s : R) m j : (m < length row)%nat ->
  nth j (firstn m row ++ match skipn m row with [] => [] | d :: r => (d + s) :: r end) 0 =
  if Nat.eqb j m then nth m row 0 + s else nth j row 0.
Proof.
  intros Hm. rewrite (skipn_nth_cons row m Hm).
  assert (Hf : length (firstn m row) = m) by (rewrite firstn_length; lia).
  destruct (Nat.eqb_spec j m) as [->|Hne].
  - rewrite app_nth2 by lia. rewrite Hf, Nat.sub_diag. reflexivity.
  - destruct (Nat.lt_ge_cases j m) as [Hlt|Hge].
    + rewrite app_nth1 by lia. apply nth_firstn_lt. exact Hlt.
    + rewrite app_nth2 by lia. rewrite Hf. destruct (j - m)%nat as [|q] eqn:E; [lia|].
      cbn [nth]. rewrite nth_skipn_add. f_equal. lia.
Qed.

Lemma add_diag_from_entry (K : rmat) (s : R) : forall k i j,
  (i < length K)%nat -> (k + i < length (nth i K []))%nat ->
  entry (add_diag_from NumR k K s) i j = if Nat.eqb j (k + i) then entry K i j + s else entry K i j.
Proof.
  induction K as [|row K IH]; intros k i j Hi Hr; simpl in Hi; [lia|].
  destruct i as [|i].
  - unfold entry. cbn [add_diag_from nth]. cbn [nth] in Hr. rewrite Nat.add_0_r in *.
    rewrite add_diag_row by exact Hr. destruct (Nat.eqb_spec j k) as [->|]; reflexivity.
  - unfold entry in *. cbn [add_diag_from nth]. cbn [nth] in Hr.
    replace (k + S i)%nat with (S k + i)%nat in * by lia. apply IH; [lia | exact Hr].
Qed.

Lemma add_diag_entry (K : rmat) (s : R) i j :
  (i < length K)%nat -> (i < length (nth i K []))%nat ->
  entry (add_diag NumR K s) i j = if Nat.eqb j i then entry K i j + s else entry K i j.
Proof. intros Hi Hr. unfold add_diag. apply (add_diag_from_entry K s 0 i j Hi). exact Hr. Qed.

(* ---- sample_and_cholesky_update: the fantasised target and the updated state ------ *)
Lemma sample_update_state (L A : rmat) (Pcols Rcols : list rvec) (kvec z : rvec)
      (kscal noise mscal floor clamp2 : R) :
  StateOK L A Pcols Rcols -> length kvec = length L -> length z = length Pcols -> 0 < clamp2 ->
  let lvec := fsubstR L kvec in
  let raw := kscal + noise - dotR lvec lvec in
  let res := sample_and_cholesky_update NumR L Pcols kvec kscal noise mscal z floor clamp2 in
  (* the drawn target: posterior mean at the new input plus z times the posterior standard deviation *)
  (forall j, (j < length Pcols)%nat ->
     nth j (snd res) 0 =
     mean_entry (predict_means NumR L Pcols [kvec] [mscal]) 0 j
     + nth j z 0 * sqrt (nth 0 (predict_vars NumR L [kvec] [kscal] floor) 0)) /\
  (* the returned state is the posterior state of the data extended by (x_new, target) *)
  StateOK (fst (fst res)) (sym_extend A kvec (dotR lvec lvec + Rmax raw clamp2)) (snd (fst res))
          (map2 (fun r tj => r ++ [tj - mscal]) Rcols (snd res)) /\
  fst res = cholesky_update NumR L Pcols kvec kscal noise mscal (snd res) clamp2.
Proof.
  intros HS Hk Hz Hc lvec raw res.
  set (pred_std := sqrt (Rmax (kscal - dotR lvec lvec) floor)).
  set (target := map2 (fun (pj : rvec) zj => (dotR lvec pj + mscal) + zj * pred_std) Pcols z).
  assert (Hres : res = (cholesky_update NumR L Pcols kvec kscal noise mscal target clamp2, target)) by reflexivity.
  rewrite Hres. cbn [fst snd].
  assert (Ht : length target = length Pcols).
  { unfold target. rewrite map2_length. tR. rewrite Hz. apply Nat.min_id. }
  split; [|split; [|reflexivity]].
  - intros j Hj. unfold target. rewrite (map2_nth _ Pcols z j [] 0 0) by (tR; lia).
    rewrite predict_means_entry by (simpl; lia).
    rewrite predict_vars_entry, raw_variances_entry by (simpl; lia).
    reflexivity.
  - destruct (cholesky_update_state L A Pcols Rcols kvec target kscal noise mscal clamp2 HS Hk Ht Hc) as [H _].
    exact H.
Qed.

(* ---- warping: structure lemmas hold at EVERY carrier ---------------------------------- *)
Section WarpGeneric.
Variable N : Num.
Variable jit : T N.

Definition disjoint (b1 b2 : wblock N) : Prop := forall k, andb (in_block N b1 k) (in_block N b2 k) = false.
Fixpoint pairwise_disjoint (bs : list (wblock N)) : Prop :=
  match bs with [] => True | b :: r => Forall (disjoint b) r /\ pairwise_disjoint r end.

Lemma warp_from_length blk : forall (x : vec N) k, length (warp_from N jit blk k x) = length x.
Proof. induction x as [|xi x IH]; intros k; simpl; [reflexivity|]. rewrite IH. reflexivity. Qed.

Lemma warp_from_nth blk : forall (x : vec N) k i d, (i < length x)%nat ->
  nth i (warp_from N jit blk k x) d = warp_coord N jit blk (k + i) (nth i x d).
Proof.
  induction x as [|xi x IH]; intros k i d Hi; simpl in Hi; [lia|].
  destruct i as [|i]; simpl.
  - rewrite Nat.add_0_r. reflexivity.
  - rewrite IH by lia. f_equal. lia.
Qed.

Lemma warp_block_length blk (x : vec N) : length (warp_block N jit blk x) = length x.
Proof. apply warp_from_length. Qed.

(* a block acts coordinate-wise, and only on its own range *)
Lemma warp_block_nth blk (x : vec N) i d : (i < length x)%nat ->
  nth i (warp_block N jit blk x) d = warp_coord N jit blk i (nth i x d).
Proof. intros Hi. unfold warp_block. rewrite warp_from_nth by exact Hi. reflexivity. Qed.

Lemma warp_coord_outside blk i xi : in_block N blk i = false -> warp_coord N jit blk i xi = xi.
Proof. intros H. unfold warp_coord. rewrite H. reflexivity. Qed.

Lemma warp_coord_inside blk i xi : in_block N blk i = true ->
  warp_coord N jit blk i xi =
  kuma N jit (nth (i - w_lo N blk) (w_a N blk) (one N)) (nth (i - w_lo N blk) (w_b N blk) (one N)) xi.
Proof. intros H. unfold warp_coord. rewrite H. reflexivity. Qed.

(* blocks on disjoint ranges commute *)
Lemma warp_block_comm b1 b2 (x : vec N) : disjoint b1 b2 ->
  warp_block N jit b1 (warp_block N jit b2 x) = warp_block N jit b2 (warp_block N jit b1 x).
Proof.
  intros Hd. apply (nth_ext _ _ (zero N) (zero N)).
  - rewrite !warp_block_length. reflexivity.
  - intros i Hi. rewrite !warp_block_length in Hi.
    rewrite !warp_block_nth by (rewrite ?warp_block_length; exact Hi).
    specialize (Hd i). unfold warp_coord.
    destruct (in_block N b1 i), (in_block N b2 i); simpl in Hd; try discriminate; reflexivity.
Qed.

Lemma apply_warpings_cons b bs (x : vec N) :
  apply_warpings N jit (b :: bs) x = apply_warpings N jit bs (warp_block N jit b x).
Proof. reflexivity. Qed.

Lemma apply_warpings_length bs : forall x : vec N, length (apply_warpings N jit bs x) = length x.
Proof.
  induction bs as [|b bs IH]; intros x; [reflexivity|].
  rewrite apply_warpings_cons, IH. apply warp_block_length.
Qed.

Lemma find_disjoint_none b bs i : in_block N b i = true -> Forall (disjoint b) bs ->
  find (fun b' => in_block N b' i) bs = None.
Proof.
  intros Hb. induction 1 as [|b' bs Hd _ IH]; [reflexivity|]. simpl.
  specialize (Hd i). rewrite Hb in Hd. simpl in Hd. rewrite Hd. exact IH.
Qed.

(* blocks on pairwise disjoint ranges compose: coordinate i is transformed by the one block that
   contains it (its Kumaraswamy parameters), every other coordinate is untouched *)
Lemma apply_warpings_nth bs : forall (x : vec N) i d, pairwise_disjoint bs -> (i < length x)%nat ->
  nth i (apply_warpings N jit bs x) d =
  match find (fun b => in_block N b i) bs with
  | Some b => warp_coord N jit b i (nth i x d)
  | None => nth i x d
  end.
Proof.
  induction bs as [|b bs IH]; intros x i d Hp Hi; [reflexivity|].
  destruct Hp as [Hd Hp]. rewrite apply_warpings_cons.
  rewrite IH by (try assumption; rewrite warp_block_length; exact Hi).
  rewrite warp_block_nth by exact Hi. cbn [find].
  destruct (in_block N b i) eqn:Eb.
  - rewrite (find_disjoint_none b bs i Eb Hd). reflexivity.
  - rewrite (warp_coord_outside b i _ Eb). reflexivity.
Qed.

(* composition of kernels: symmetry is inherited *)
Lemma warped_kernel_sym (k : vec N -> vec N -> T N) bs x y :
  (forall u v, k u v = k v u) ->
  warped_kernel N k jit bs x y = warped_kernel N k jit bs y x.
Proof. intros H. unfold warped_kernel. apply H. Qed.

Lemma range_kernel_sym (k : vec N -> vec N -> T N) s l x y :
  (forall u v, k u v = k v u) -> range_kernel N k s l x y = range_kernel N k s l y x.
Proof. intros H. unfold range_kernel. apply H. Qed.
End WarpGeneric.

Lemma product_kernel_sym (k1 k2 : rvec -> rvec -> R) d1 (x y : rvec) :
  (forall u v, k1 u v = k1 v u) -> (forall u v, k2 u v = k2 v u) ->
  product_kernel NumR k1 d1 k2 x y = product_kernel NumR k1 d1 k2 y x.
Proof. intros H1 H2. unfold product_kernel. rewrite (H1 (firstn d1 x)), (H2 (skipn d1 x)). reflexivity. Qed.

(* Kumaraswamy warping with a = b = 1 is the rescaling [0,1] -> [jit, 1 - jit]: the identity up to jit *)
Lemma npow_one (x : R) : 0 < x -> npow NumR x 1 = x.
Proof. intros Hx. unfold npow. cbn [nexp nlog mul NumR]. rewrite Rmult_1_l. apply exp_ln. exact Hx. Qed.

Lemma kuma_identity (jit x : R) : 0 < jit -> jit < / 2 -> 0 <= x <= 1 ->
  kuma NumR jit 1 1 x = (1 - 2 * jit) * x + jit /\ Rabs (kuma NumR jit 1 1 x - x) <= jit.
Proof.
  intros Hj Hj2 [Hx0 Hx1].
  assert (Hr : rescale NumR jit x = (1 - 2 * jit) * x + jit).
  { unfold rescale, two. cbn [add sub mul one NumR]. tR. ring. }
  assert (Hr0 : 0 < (1 - 2 * jit) * x + jit) by nra.
  assert (Hr1 : (1 - 2 * jit) * x + jit < 1) by nra.
  assert (E : kuma NumR jit 1 1 x = (1 - 2 * jit) * x + jit).
  { unfold kuma. rewrite Hr. cbn [sub one NumR]. rewrite (npow_one _ Hr0).
    rewrite npow_one by lra. tR. lra. }
  split; [exact E|]. rewrite E. apply Rabs_le. split; nra.
Qed.

(* warped / product / range Matern kernels on the diagonal *)
Lemma warped_matern_self (ib : rvec) (cs mj wj : R) (bs : list (wblock NumR)) (x : rvec) :
  warped_kernel NumR (matern52 NumR ib cs mj) wj bs x x = (1 + sqrt mj) * exp (- sqrt mj) * cs.
Proof. unfold warped_kernel. apply matern52_self. Qed.

Lemma product_matern_self (ib1 ib2 : rvec) (cs1 cs2 mj : R) d1 (x : rvec) :
  product_kernel NumR (matern52 NumR ib1 cs1 mj) d1 (matern52 NumR ib2 cs2 mj) x x =
  ((1 + sqrt mj) * exp (- sqrt mj) * cs1) * ((1 + sqrt mj) * exp (- sqrt mj) * cs2).
Proof. unfold product_kernel. rewrite !matern52_self. reflexivity. Qed.

(* ---- kernel objects: diagonal X = diag (forward X X), and the diagonal_depends_on_X flag logic ------ *)
(* the diagonal of one row is the kernel of the row with itself *)
Definition DiagOK (k : kern NumR) : Prop := forall x : rvec, k_diag NumR k x = k_fwd NumR k x x.
(* the flag is sound: "does not depend on X" means the diagonal is the same for all rows *)
Definition FlagOK (k : kern NumR) : Prop :=
  k_dep NumR k = false -> forall x y : rvec, k_diag NumR k x = k_diag NumR k y.

Lemma kdiagonal_is_diag (k : kern NumR) (X : list rvec) : DiagOK k ->
  forall i, (i < length X)%nat ->
    nth i (kdiagonal NumR k X) 0 = entry (kmatrix NumR (k_fwd NumR k) X X) i i.
Proof.
  intros H i Hi. unfold kdiagonal, kmatrix, entry. tR.
  rewrite (map_nth_lt _ X i [] 0 Hi).
  rewrite (map_nth_lt _ X i [] [] Hi).
  rewrite (map_nth_lt _ X i [] 0 Hi). apply H.
Qed.

Lemma kmatern_flag (ib : rvec) (cs jit : R) : FlagOK (kmatern NumR ib cs jit).
Proof. intros _ x y. reflexivity. Qed.

Lemma kmatern_diag0 (ib : rvec) (cs : R) : DiagOK (kmatern NumR ib cs 0).
Proof. intros x. cbn [k_diag k_fwd kmatern]. rewrite matern52_self_nojitter. cbn [mul one NumR]. tR. lra. Qed.

Lemma kproduct_ok (k1 k2 : kern NumR) d1 :
  DiagOK k1 -> DiagOK k2 -> FlagOK k1 -> FlagOK k2 ->
  DiagOK (kproduct NumR k1 d1 k2) /\ FlagOK (kproduct NumR k1 d1 k2).
Proof.
  intros D1 D2 F1 F2. split.
  - intros x. cbn [k_diag k_fwd kproduct]. unfold product_kernel. rewrite D1, D2. reflexivity.
  - intros Hdep x y. cbn [k_dep kproduct] in Hdep. apply Bool.orb_false_iff in Hdep as [H1 H2].
    cbn [k_diag kproduct]. f_equal; [apply (F1 H1) | apply (F2 H2)].
Qed.

Lemma krange_ok (k : kern NumR) s l : DiagOK k -> FlagOK k ->
  DiagOK (krange NumR k s l) /\ FlagOK (krange NumR k s l).
Proof.
  intros D F. split.
  - intros x. cbn [k_diag k_fwd krange]. unfold range_kernel. apply D.
  - intros Hdep x y. cbn [k_dep krange] in Hdep. cbn [k_diag krange]. apply (F Hdep).
Qed.

Lemma kwarped_ok (k : kern NumR) (jit : R) (bs : list (wblock NumR)) : DiagOK k -> FlagOK k ->
  DiagOK (kwarped NumR k jit bs) /\ FlagOK (kwarped NumR k jit bs).
Proof.
  intros D F. split.
  - intros x. cbn [k_diag k_fwd kwarped]. unfold warped_kernel.
    destruct (k_dep NumR k) eqn:E.
    + apply D.
    + rewrite (F E x (apply_warpings NumR jit bs x)). apply D.
  - intros Hdep x y. cbn [k_dep kwarped] in Hdep. cbn [k_diag kwarped]. rewrite Hdep. apply (F Hdep).
Qed.

Lemma kexpdecay_ok (kx : kern NumR) dx (mux : rvec -> R) (alpha mean_lam gamma delta : R) : DiagOK kx ->
  DiagOK (kexpdecay NumR kx dx mux alpha mean_lam gamma delta) /\
  FlagOK (kexpdecay NumR kx dx mux alpha mean_lam gamma delta).
Proof.
  intros D. split; [|intros Hdep; discriminate Hdep].
  intros x. cbn [k_diag k_fwd kexpdecay]. unfold expdecay_diag, expdecay_fwd. rewrite D.
  unfold two. cbn [add sub mul one zero NumR]. tR.
  replace (nth dx x 0 * (1 + 1)) with (nth dx x 0 + nth dx x 0) by lra.
  generalize (kappa NumR alpha mean_lam (nth dx x 0 + nth dx x 0)).
  generalize (kappa NumR alpha mean_lam (nth dx x 0)).
  generalize (k_fwd NumR kx (firstn dx x) (firstn dx x)). generalize (mux (firstn dx x)).
  intros m kk k1 k2. ring.
Qed.

(* every kernel expression built from consistent leaves is consistent; a Matern leaf is consistent when the
   square-root jitter is 0 (with jitter j its forward value on the diagonal is (1+sqrt j) exp(-sqrt j) times
   its diagonal, see matern52_self) *)
Fixpoint leaves_ok (e : kexpr NumR) : Prop :=
  match e with
  | KBase _ k => DiagOK k /\ FlagOK k
  | KMat _ _ _ jit => jit = 0
  | KProd _ a _ b => leaves_ok a /\ leaves_ok b
  | KRange _ a _ _ => leaves_ok a
  | KWarp _ a _ _ => leaves_ok a
  | KExpD _ a _ _ _ _ _ _ => leaves_ok a
  end.

Lemma keval_ok (e : kexpr NumR) : leaves_ok e -> DiagOK (keval NumR e) /\ FlagOK (keval NumR e).
Proof.
  induction e as [k|ib cs jit|a IHa d1 b IHb|a IHa s l|a IHa jit bs|a IHa dx mu al ml ga de]; cbn [leaves_ok keval].
  - tauto.
  - intros ->. split; [apply kmatern_diag0 | apply kmatern_flag].
  - intros [Ha Hb]. destruct (IHa Ha), (IHb Hb). apply kproduct_ok; assumption.
  - intros Ha. destruct (IHa Ha). apply krange_ok; assumption.
  - intros Ha. destruct (IHa Ha). apply kwarped_ok; assumption.
  - intros Ha. destruct (IHa Ha). apply kexpdecay_ok; assumption.
Qed.

(* the flag logic matters: if a product reported "independent of X" as soon as ONE factor is (all instead
   of any), wrapping it in a WarpedKernel would break diagonal = diag(forward) *)
Lemma product_flag_all_refuted :
  exists (k1 k2 : kern NumR) (jit : R) (bs : list (wblock NumR)) (x : rvec),
    DiagOK k1 /\ FlagOK k1 /\ DiagOK k2 /\ FlagOK k2 /\
    let bad := mkK NumR (k_fwd NumR (kproduct NumR k1 1 k2)) (k_diag NumR (kproduct NumR k1 1 k2))
                   (andb (k_dep NumR k1) (k_dep NumR k2)) in
    k_diag NumR (kwarped NumR bad jit bs) x <> k_fwd NumR (kwarped NumR bad jit bs) x x.
Proof.
  (* k1 = constant 1 (independent of X), k2 (u,v) = u_0 * v_0 (depends on X), warp coordinate 1 with a = b = 1 *)
  exists (mkK NumR (fun _ _ => 1) (fun _ => 1) false).
  exists (mkK NumR (fun u v => nth 0 u 0 * nth 0 v 0) (fun u => nth 0 u 0 * nth 0 u 0) true).
  exists (/ 4). exists [mkW NumR 1 2 [1] [1]]. exists [0; 0].
  split; [intros x; reflexivity|]. split; [intros _ x y; reflexivity|].
  split; [intros x; reflexivity|]. split; [intros H; discriminate H|].
  cbv zeta. cbn [k_diag k_fwd k_dep kwarped kproduct andb]. unfold warped_kernel, product_kernel.
  cbn [apply_warpings fold_left warp_block warp_from warp_coord in_block w_lo w_up w_a w_b Nat.leb Nat.ltb andb
       firstn skipn nth Nat.sub].
  assert (E : kuma NumR (/ 4) 1 1 0 = / 4).
  { destruct (kuma_identity (/ 4) 0) as [E _]; lra. }
  rewrite E. cbn [mul NumR]. lra.
Qed.

(* ---- GaussianProcessRegression as a state machine (every carrier) ------------------------------------ *)
Section ModelMachine.
Variable N : Num.
Variable jit : T N.

(* the posterior state is the one of its data under the LIVE parameters *)
Definition Fresh (m : gmodel N) : Prop :=
  match gm_state N m with
  | None => False
  | Some (d, st) => st = gp_post N jit (gm_params N m) d
  end.

(* a fit or recompute_states step ALWAYS leaves the posterior state of the data of that step under the
   parameters the model has after the step: whatever the previous state was (same data object or not),
   and also when every optimiser restart failed *)
Lemma gstep_compute_fresh (m : gmodel N) (o : gop N) (d : gdata N) :
  op_data N o = Some d ->
  gm_state N (gstep N jit m o) = Some (d, gp_post N jit (gm_params N (gstep N jit m o)) d).
Proof. destruct o; simpl; intros H; try discriminate; injection H as ->; reflexivity. Qed.

Lemma grun_snoc (m : gmodel N) ops o : grun N jit m (ops ++ [o]) = gstep N jit (grun N jit m ops) o.
Proof. unfold grun. rewrite fold_left_app. reflexivity. Qed.

Lemma grun_last_compute_fresh (m : gmodel N) (ops : list (gop N)) (o : gop N) (d : gdata N) :
  op_data N o = Some d ->
  Fresh (grun N jit m (ops ++ [o])) /\
  gm_state N (grun N jit m (ops ++ [o])) =
    Some (d, gp_post N jit (gm_params N (grun N jit m (ops ++ [o]))) d).
Proof.
  intros H. rewrite grun_snoc. pose proof (gstep_compute_fresh (grun N jit m ops) o d H) as E.
  split; [|exact E]. unfold Fresh. rewrite E. reflexivity.
Qed.

(* a fit whose optimiser fails in every restart keeps the prepared parameters and still computes the state *)
Lemma gfit_failed (m : gmodel N) d prepared :
  gstep N jit m (GFit N d prepared None) = mkGM N prepared (Some (d, gp_post N jit prepared d)).
Proof. reflexivity. Qed.

(* set_params / reset_params change the parameters only; the state is then stale until the next recompute *)
Lemma gset_keeps_state (m : gmodel N) p :
  gm_state N (gstep N jit m (GSet N p)) = gm_state N m /\ gm_params N (gstep N jit m (GSet N p)) = p.
Proof. split; reflexivity. Qed.
End ModelMachine.

(* over R: a Fresh model predicts the dense posterior of its data under the live parameters *)
Lemma gp_kernel_matrix_length (ib : rvec) (cs jit : R) (X1 X2 : list rvec) :
  length (kernel_matrix NumR ib cs jit X1 X2) = length X1.
Proof. unfold kernel_matrix. apply map_length. Qed.

Lemma gpredict_dense (jit floor : R) (m : gmodel NumR) (d : gdata NumR) (L : rmat) (P : list rvec) (Xt : list rvec) :
  gm_state NumR m = Some (d, (L, P)) -> Fresh NumR jit m ->
  let p := gm_params NumR m in
  let A := gp_sysmat NumR jit p d in
  Square A -> Symmetric A -> chol_ok A [] -> length (gd_y NumR d) = length (gd_X NumR d) ->
  length A = length (gd_X NumR d) ->
  forall means vars, gpredict NumR jit floor m Xt = Some (means, vars) ->
  forall t (alpha beta : rvec), (t < length Xt)%nat ->
    length alpha = length A -> length beta = length A ->
    mvR A alpha = vsub NumR (gd_y NumR d) (map (fun _ => gp_mean NumR p) (gd_X NumR d)) ->
    mvR A beta = nth t (gp_kcols NumR jit p d Xt) [] ->
    mean_entry means t 0 = gp_mean NumR p + dotR (nth t (gp_kcols NumR jit p d Xt) []) alpha /\
    nth t vars 0 = Rmax (gp_cs NumR p - dotR (nth t (gp_kcols NumR jit p d Xt) []) beta) floor.
Proof.
  intros Hst Hfresh p A Hsq Hsym Hok Hy HlA means vars Hpred t alpha beta Ht Ha Hb Halpha Hbeta.
  unfold Fresh in Hfresh. rewrite Hst in Hfresh.
  unfold gpredict in Hpred. rewrite Hst in Hpred. fold p in Hpred.
  injection Hpred as Hm Hv.
  assert (HS : StateOK L A P (map (fun y => vsub NumR y (map (fun _ => gp_mean NumR p) (gd_X NumR d))) [gd_y NumR d])).
  { pose proof (cholesky_computations_state
                  (kernel_matrix NumR (gp_ib NumR p) (gp_cs NumR p) jit (gd_X NumR d) (gd_X NumR d))
                  (gp_noise NumR p) [gd_y NumR d] (map (fun _ => gp_mean NumR p) (gd_X NumR d))) as H.
    cbv zeta in H. fold (gp_sysmat NumR jit p d) in H. fold A in H.
    unfold gp_post in Hfresh. fold p in Hfresh. rewrite <- Hfresh in H. cbn [fst snd] in H.
    apply H; try assumption.
    - rewrite map_length. tR. symmetry. exact HlA.
    - constructor; [|constructor]. tR. rewrite HlA. exact Hy. }
  destruct HS as [Hlt [HsqL [HA [HlP HP]]]].
  assert (HlL : length L = length A).
  { transitivity (length (gramR L)); [symmetry; apply gram_length | f_equal; exact HA]. }
  assert (Hkc : length (nth t (gp_kcols NumR jit p d Xt) []) = length L).
  { unfold gp_kcols. tR. rewrite (map_nth_lt _ Xt t [] [] Ht). rewrite map_length. rewrite HlL. symmetry. exact HlA. }
  assert (Htk : (t < length (gp_kcols NumR jit p d Xt))%nat) by (unfold gp_kcols; rewrite map_length; exact Ht).
  split.
  - rewrite <- Hm.
    assert (Htm : (t < length (map (fun _ : rvec => gp_mean NumR p) Xt))%nat) by (rewrite map_length; exact Ht).
    assert (Hj : (0 < length (map (fun y => vsub NumR y (map (fun _ : rvec => gp_mean NumR p) (gd_X NumR d)))
                                  [gd_y NumR d]))%nat) by (simpl; lia).
    assert (HaL : length alpha = length L) by congruence.
    pose proof (mean_dense L A P _ (gp_kcols NumR jit p d Xt) (map (fun _ : rvec => gp_mean NumR p) Xt)
                           (conj Hlt (conj HsqL (conj HA (conj HlP HP)))) t 0%nat alpha Htk Htm Hj Hkc HaL Halpha) as E.
    etransitivity; [exact E|]. rewrite (map_nth_lt _ Xt t [] 0 Ht). reflexivity.
  - rewrite <- Hv.
    assert (Htd : (t < length (map (fun _ : rvec => (1 * gp_cs NumR p)%R) Xt))%nat) by (rewrite map_length; exact Ht).
    assert (HbL : length beta = length L) by congruence.
    destruct (var_dense L A (gp_kcols NumR jit p d Xt) (map (fun _ : rvec => 1 * gp_cs NumR p) Xt) floor Hlt HsqL HA
                        t beta Htk Htd Hkc HbL Hbeta) as [_ E].
    etransitivity; [exact E|]. rewrite (map_nth_lt _ Xt t [] 0 Ht). f_equal. f_equal. tR. lra.
Qed.

(* ---- K(X,X) + noise I is square and symmetric ------------------------------------------------------ *)
Lemma add_diag_row_length (row : rvec) (s : R) m :
  length (firstn m row ++ match skipn m row with [] => [] | d :: r => (d + s) :: r end) = length row.
Proof.
  rewrite app_length, firstn_length. pose proof (skipn_length m row) as H.
  destruct (skipn m row) as [|d r]; simpl in *; lia.
Qed.

Lemma add_diag_from_shape (K : rmat) (s : R) : forall k,
  length (add_diag_from NumR k K s) = length K /\
  forall n, Forall (fun r => length r = n) K -> Forall (fun r => length r = n) (add_diag_from NumR k K s).
Proof.
  induction K as [|row K IH]; intros k; simpl; [split; [reflexivity | intros; constructor]|].
  destruct (IH (S k)) as [Hl HF]. split; [rewrite Hl; reflexivity|].
  intros n H. inversion H; subst. constructor; [apply add_diag_row_length | apply HF; assumption].
Qed.

Lemma gp_sysmat_wf (jit : R) (p : gparams NumR) (d : gdata NumR) :
  let A := gp_sysmat NumR jit p d in
  length A = length (gd_X NumR d) /\ Square A /\ Symmetric A.
Proof.
  cbv zeta. unfold gp_sysmat, add_diag.
  set (X := gd_X NumR d). set (K := kernel_matrix NumR (gp_ib NumR p) (gp_cs NumR p) jit X X).
  assert (HK : length K = length X) by apply gp_kernel_matrix_length.
  assert (HKr : Forall (fun r : rvec => length r = length X) K).
  { apply Forall_forall. intros r Hr. unfold K, kernel_matrix in Hr. apply in_map_iff in Hr as [a [<- _]].
    apply map_length. }
  destruct (add_diag_from_shape K (gp_noise NumR p) 0) as [Hl HF].
  tR. assert (HlA : length (add_diag_from NumR 0 K (gp_noise NumR p)) = length X) by (transitivity (length K); [exact Hl | exact HK]).
  split; [exact HlA|]. split.
  - unfold Square. tR. eapply Forall_impl; [|apply (HF (length X) HKr)]. intros r Hr. cbv beta in *. rewrite Hr. symmetry. exact HlA.
  - assert (Hent : forall i j, (i < length X)%nat -> (j < length X)%nat ->
              entry K i j = matern52 NumR (gp_ib NumR p) (gp_cs NumR p) jit (nth i X []) (nth j X [])).
    { intros i j Hi Hj. unfold entry, K, kernel_matrix.
      rewrite (map_nth_lt _ X i [] [] Hi). rewrite (map_nth_lt _ X j [] 0 Hj). reflexivity. }
    assert (Hrow : forall i, (i < length X)%nat -> length (nth i K []) = length X).
    { intros i Hi. rewrite Forall_forall in HKr. apply HKr. apply nth_In. lia. }
    assert (Hout : forall i j, (length X <= i)%nat \/ (length X <= j)%nat ->
              entry (add_diag_from NumR 0 K (gp_noise NumR p)) i j = 0).
    { intros i j [Hi|Hj]; unfold entry.
      - rewrite (nth_overflow _ [] ) by (tR; rewrite HlA; exact Hi). destruct j; reflexivity.
      - destruct (Nat.lt_ge_cases i (length X)) as [Hi|Hi].
        + apply nth_overflow. assert (Hin : In (nth i (add_diag_from NumR 0 K (gp_noise NumR p)) []) (add_diag_from NumR 0 K (gp_noise NumR p)))
            by (apply nth_In; tR; rewrite HlA; exact Hi).
          specialize (HF (length X) HKr). rewrite Forall_forall in HF. pose proof (HF _ Hin) as E. cbv beta in E. tR. lia.
        + rewrite (nth_overflow _ []) by (tR; rewrite HlA; exact Hi). destruct j; reflexivity. }
    intros i j.
    destruct (Nat.lt_ge_cases i (length X)) as [Hi|Hi]; [|rewrite !Hout by (auto); reflexivity].
    destruct (Nat.lt_ge_cases j (length X)) as [Hj|Hj]; [|rewrite !Hout by (auto); reflexivity].
    fold (add_diag NumR K (gp_noise NumR p)).
    rewrite !add_diag_entry by (rewrite ?Hrow by assumption; lia).
    rewrite !Hent by assumption. rewrite (matern52_sym _ _ _ (nth i X []) (nth j X [])).
    destruct (Nat.eqb_spec j i) as [->|Hne].
    + rewrite Nat.eqb_refl. reflexivity.
    + destruct (Nat.eqb_spec i j) as [E|_]; [subst; contradiction|reflexivity].
Qed.

Lemma gpredict_dense_wf (jit floor : R) (m : gmodel NumR) (d : gdata NumR) (L : rmat) (P : list rvec) (Xt : list rvec) :
  gm_state NumR m = Some (d, (L, P)) -> Fresh NumR jit m ->
  let p := gm_params NumR m in
  let A := gp_sysmat NumR jit p d in
  chol_ok A [] -> length (gd_y NumR d) = length (gd_X NumR d) ->
  forall means vars, gpredict NumR jit floor m Xt = Some (means, vars) ->
  forall t (alpha beta : rvec), (t < length Xt)%nat ->
    length alpha = length (gd_X NumR d) -> length beta = length (gd_X NumR d) ->
    mvR A alpha = vsub NumR (gd_y NumR d) (map (fun _ => gp_mean NumR p) (gd_X NumR d)) ->
    mvR A beta = nth t (gp_kcols NumR jit p d Xt) [] ->
    mean_entry means t 0 = gp_mean NumR p + dotR (nth t (gp_kcols NumR jit p d Xt) []) alpha /\
    nth t vars 0 = Rmax (gp_cs NumR p - dotR (nth t (gp_kcols NumR jit p d Xt) []) beta) floor.
Proof.
  intros Hst Hfresh p A Hok Hy means vars Hpred t alpha beta Ht Ha Hb Halpha Hbeta.
  destruct (gp_sysmat_wf jit p d) as [HlA [Hsq Hsym]]. fold A in HlA, Hsq, Hsym.
  assert (Ha' : length alpha = length A) by (tR; rewrite HlA; exact Ha).
  assert (Hb' : length beta = length A) by (tR; rewrite HlA; exact Hb).
  exact (gpredict_dense jit floor m d L P Xt Hst Hfresh Hsq Hsym Hok Hy HlA means vars Hpred t alpha beta Ht
                        Ha' Hb' Halpha Hbeta).
Qed.

(* ---- sample_posterior_joint: the index map of the draws (every carrier) ------------------------------- *)
Section JointLayout.
Variable N : Num.

Lemma chunk_concat {A} (size : nat) (rows : list (list A)) :
  Forall (fun r => length r = size) rows -> chunk size (length rows) (concat rows) = rows.
Proof.
  induction 1 as [|r rows Hr _ IH]; [reflexivity|]. cbn [length concat chunk].
  rewrite firstn_app, (firstn_all2 r) by lia. replace (size - length r)%nat with 0%nat by lia.
  cbn [firstn]. rewrite app_nil_r. f_equal.
  rewrite skipn_app, (skipn_all2 r) by lia. replace (size - length r)%nat with 0%nat by lia.
  cbn [skipn app]. exact IH.
Qed.

Lemma concat_nth_flat {A} (size : nat) (rows : list (list A)) (d : A) : forall j s,
  Forall (fun r => length r = size) rows -> (j < length rows)%nat -> (s < size)%nat ->
  nth (j * size + s) (concat rows) d = nth s (nth j rows []) d.
Proof.
  intros j s H. revert j. induction H as [|r rows Hr _ IH]; intros j Hj Hs; simpl in Hj; [lia|].
  destruct j as [|j]; cbn [concat nth].
  - rewrite app_nth1 by lia. reflexivity.
  - rewrite app_nth2 by (rewrite Hr; simpl; lia).
    replace (S j * size + s - length r)%nat with (j * size + s)%nat by (rewrite Hr; simpl; lia).
    apply IH; lia.
Qed.

(* sample s of fantasy column j = L z_{j,s} + posterior mean of column j; and the draw used is the flat
   column j * num_samples + s of the noise matrix *)
Lemma joint_samples_layout (lfact : mat N) (mean_cols : list (vec N)) (zc : list (list (vec N))) (S : nat) :
  Forall (fun r => length r = S) zc -> length zc = length mean_cols ->
  joint_samples N lfact mean_cols zc S =
  map2 (fun mj zrow => map (fun z => vadd N (mv N lfact z) mj) zrow) mean_cols zc.
Proof.
  intros HS Hl. unfold joint_samples.
  rewrite concat_map, <- Hl.
  rewrite <- (map_length (map (fun z => mv N lfact z)) zc).
  rewrite chunk_concat.
  - clear HS Hl. revert zc. induction mean_cols as [|mj mc IH]; intros [|zr zc]; simpl; try reflexivity.
    rewrite IH, map_map. reflexivity.
  - apply Forall_forall. intros r Hr. apply in_map_iff in Hr as [r0 [<- Hin]].
    rewrite map_length. rewrite Forall_forall in HS. apply HS. exact Hin.
Qed.
End JointLayout.

(* ---- AddJitterOp's search: first jitter of the documented sequence that passes the Cholesky test -------- *)
Section JitterSearch.
Variable N : Num.
Variables (ok : mat N -> bool) (within : T N -> bool) (K : mat N) (sigsq j0 growth : T N).

Lemma jitter_loop_spec : forall fuel k0 A s,
  jitter_loop N ok within K sigsq growth fuel (jpos N j0 growth k0) = Some (A, s) ->
  exists k, (k0 <= k)%nat /\ s = add N sigsq (jpos N j0 growth k) /\ A = add_diag N K s /\ ok A = true /\
            within (jpos N j0 growth k) = true /\
            forall i, (k0 <= i < k)%nat ->
              ok (add_diag N K (add N sigsq (jpos N j0 growth i))) = false /\ within (jpos N j0 growth i) = true.
Proof.
  induction fuel as [|f IH]; intros k0 A s H; [discriminate|]. cbn [jitter_loop] in H.
  destruct (within (jpos N j0 growth k0)) eqn:Ew; [|discriminate].
  destruct (ok (add_diag N K (add N sigsq (jpos N j0 growth k0)))) eqn:Eo.
  - injection H as <- <-. exists k0.
    split; [lia|]. split; [reflexivity|]. split; [reflexivity|]. split; [exact Eo|]. split; [exact Ew|].
    intros i Hi. lia.
  - change (mul N (jpos N j0 growth k0) growth) with (jpos N j0 growth (S k0)) in H.
    destruct (IH (S k0) A s H) as [k [Hk [Hs [HA [Hok [Hw Hall]]]]]].
    exists k. split; [lia|]. split; [exact Hs|]. split; [exact HA|]. split; [exact Hok|]. split; [exact Hw|].
    intros i Hi. destruct (Nat.eq_dec i k0) as [->|Hne]; [split; [exact Eo | exact Ew] | apply Hall; lia].
Qed.

(* the contract: the result is K + sigsq_final * Id built from the ORIGINAL K (so only the diagonal differs from
   K, see add_diag_entry), sigsq_final = sigsq + (k-th jitter of 0, j0, j0 g, j0 g^2, ...), it passes the test,
   and every earlier jitter of the sequence was tried and failed the test: for every matrix size, 1 x 1 included *)
Lemma add_jitter_spec fuel A s :
  add_jitter N ok within K sigsq j0 growth fuel = Some (A, s) ->
  exists k, s = add N sigsq (jseq N j0 growth k) /\ A = add_diag N K s /\ ok A = true /\
            within (jseq N j0 growth k) = true /\
            forall i, (i < k)%nat ->
              ok (add_diag N K (add N sigsq (jseq N j0 growth i))) = false /\ within (jseq N j0 growth i) = true.
Proof.
  unfold add_jitter. intros H.
  destruct (within (zero N)) eqn:Ew; [|discriminate].
  destruct (ok (add_diag N K (add N sigsq (zero N)))) eqn:Eo.
  - injection H as <- <-. exists 0%nat. cbn [jseq].
    split; [reflexivity|]. split; [reflexivity|]. split; [exact Eo|]. split; [exact Ew|]. intros i Hi. lia.
  - change j0 with (jpos N j0 growth 0) in H.
    destruct (jitter_loop_spec fuel 0 A s H) as [k [_ [Hs [HA [Hok [Hw Hall]]]]]].
    exists (S k). cbn [jseq]. split; [exact Hs|]. split; [exact HA|]. split; [exact Hok|]. split; [exact Hw|].
    intros i Hi. destruct i as [|i]; [split; [exact Eo | exact Ew] | cbn [jseq]; apply Hall; lia].
Qed.

(* no jitter is added when the first test succeeds *)
Lemma add_jitter_no_jitter fuel :
  within (zero N) = true -> ok (add_diag N K (add N sigsq (zero N))) = true ->
  add_jitter N ok within K sigsq j0 growth fuel = Some (add_diag N K (add N sigsq (zero N)), add N sigsq (zero N)).
Proof. intros Hw Ho. unfold add_jitter. rewrite Hw, Ho. reflexivity. Qed.
End JitterSearch.

(* ---- the MCMC family of posterior states: state i belongs to sample i (every carrier) -------------------- *)
Section McmcStates.
Variable N : Num.
Variable jit : T N.

Lemma mcmc_states_nth (samples : list (gparams N)) (d : gdata N) i (p0 : gparams N) : (i < length samples)%nat ->
  let m := nth i (mcmc_states N jit samples d) (mkGM N p0 None) in
  gm_params N m = nth i samples p0 /\
  gm_state N m = Some (d, gp_post N jit (nth i samples p0) d) /\
  Fresh N jit m.
Proof.
  intros Hi. cbv zeta. unfold mcmc_states.
  rewrite (map_nth_lt _ samples i p0 (mkGM N p0 None) Hi). cbn [gm_params gm_state].
  split; [reflexivity|]. split; [reflexivity|]. unfold Fresh. reflexivity.
Qed.

Lemma mcmc_states_length (samples : list (gparams N)) (d : gdata N) :
  length (mcmc_states N jit samples d) = length samples.
Proof. apply map_length. Qed.

(* predictions of state i use state i's own parameters: they are what a single model with those parameters gives *)
Lemma mcmc_predict_nth floor (samples : list (gparams N)) (d : gdata N) Xt i (p0 : gparams N) :
  (i < length samples)%nat ->
  nth i (mcmc_predict N jit floor (mcmc_states N jit samples d) Xt) None =
  gpredict N jit floor (mkGM N (nth i samples p0) (Some (d, gp_post N jit (nth i samples p0) d))) Xt.
Proof.
  intros Hi. unfold mcmc_predict, mcmc_states. rewrite map_map.
  rewrite (map_nth_lt _ samples i p0 None Hi). reflexivity.
Qed.

(* fantasy matrices through the state: column j of the m-column state is the 1-column state on target column j,
   and the factor does not depend on the targets *)
Lemma pred_mat_column (L : mat N) (Y : list (vec N)) (mvec : vec N) j : (j < length Y)%nat ->
  nth j (pred_mat N L Y mvec) [] = hd [] (pred_mat N L [nth j Y []] mvec).
Proof. intros Hj. unfold pred_mat. exact (map_nth_lt (fun y => forward_subst N L (vsub N y mvec)) Y j [] [] Hj). Qed.

Lemma cholesky_computations_columns (K : mat N) (s : T N) (Y : list (vec N)) (mvec : vec N) j : (j < length Y)%nat ->
  fst (cholesky_computations N K s Y mvec) = fst (cholesky_computations N K s [nth j Y []] mvec) /\
  nth j (snd (cholesky_computations N K s Y mvec)) [] = hd [] (snd (cholesky_computations N K s [nth j Y []] mvec)).
Proof. intros Hj. unfold cholesky_computations. cbn [fst snd]. split; [reflexivity | apply pred_mat_column; exact Hj]. Qed.
End McmcStates.
