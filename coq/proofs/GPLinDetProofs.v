(* GPLinDetProofs.v — determinant of the list model (C08, log-det term of the likelihood).
   [det_list M] is MathComp's determinant (Leibniz formula) of the matrix with the same entries
   ([to_mx]); R is given its MathComp commutative-ring structure here (eqType from Req_EM_T, choiceType
   from ClassicalEpsilon — this is where constructive_indefinite_description enters).  The transport
   commutes with gram / transpose / triangularity / diagonal for square well-formed lists, hence
   det (L L^T) = (prod L_ii)^2 for the LIST model's lower-triangular L and the likelihood theorem
   holds without the determinant hypothesis. *)
Set Warnings "-notation-overridden,-ambiguous-paths".
From mathcomp Require Import all_ssreflect all_algebra.
From Coq Require Import Reals ClassicalEpsilon FunctionalExtensionality.
From Verif Require Import model.GPLin proofs.GPLinProofs.
Import GRing.Theory.
Set Implicit Arguments.
Unset Strict Implicit.

(* R as a MathComp commutative ring *)
Definition Reqb (x y : R) : bool := if Req_EM_T x y then true else false.
Lemma ReqP : Equality.axiom Reqb.
Proof. move=> x y; rewrite /Reqb; case: (Req_EM_T x y) => h; by constructor. Qed.
Definition R_eqMixin := EqMixin ReqP.
Canonical R_eqType := Eval hnf in EqType R R_eqMixin.

Definition Rfind (P : pred R) (n : nat) : option R :=
  match excluded_middle_informative (exists x, P x) with
  | left ex => Some (proj1_sig (constructive_indefinite_description _ ex))
  | right _ => None
  end.
Lemma Rfind_some P n x : Rfind P n = Some x -> P x.
Proof.
  rewrite /Rfind; case: (excluded_middle_informative _) => // ex [] <-.
  exact: (proj2_sig (constructive_indefinite_description _ ex)).
Qed.
Lemma Rfind_ex (P : pred R) : (exists x, P x) -> exists n, Rfind P n.
Proof. move=> ex; exists 0%N; rewrite /Rfind; by case: (excluded_middle_informative _). Qed.
Lemma Rfind_ext (P Q : pred R) : P =1 Q -> Rfind P =1 Rfind Q.
Proof. move=> /functional_extensionality -> n; by []. Qed.
Definition R_choiceMixin := Choice.Mixin Rfind_some Rfind_ex Rfind_ext.
Canonical R_choiceType := Eval hnf in ChoiceType R R_choiceMixin.

Lemma RplusA : associative Rplus. Proof. move=> x y z; by rewrite Rplus_assoc. Qed.
Lemma RmultA : associative Rmult. Proof. move=> x y z; by rewrite Rmult_assoc. Qed.
Definition R_zmodMixin := ZmodMixin RplusA Rplus_comm Rplus_0_l Rplus_opp_l.
Canonical R_zmodType := Eval hnf in ZmodType R R_zmodMixin.
Lemma R1_neq0 : (R1 != R0 :> R).
Proof. apply/eqP. exact: R1_neq_R0. Qed.
Definition R_ringMixin := RingMixin RmultA Rmult_1_l Rmult_1_r Rmult_plus_distr_r Rmult_plus_distr_l R1_neq0.
Canonical R_ringType := Eval hnf in RingType R R_ringMixin.
Canonical R_comRingType := Eval hnf in ComRingType R Rmult_comm.

Local Open Scope ring_scope.

(* the MathComp matrix with the same entries as a list matrix, and the determinant of a list matrix
   (Leibniz formula of MathComp) *)
Definition to_mx (n : nat) (M : list (list R)) : 'M[R]_n :=
  \matrix_(i < n, j < n) List.nth (nat_of_ord j) (List.nth (nat_of_ord i) M Datatypes.nil) R0.
Definition det_list (M : list (list R)) : R := \det (to_mx (List.length M) M).

Lemma dot_sum n : forall a b : list R, List.length a = n -> List.length b = n ->
  dot NumR a b = \sum_(k < n) (List.nth (nat_of_ord k) a R0 * List.nth (nat_of_ord k) b R0).
Proof.
  elim: n => [|n IH] [|x a] [|y b] //= Ha Hb.
  - by rewrite big_ord0.
  - rewrite big_ord_recl /=. congr (_ + _).
    rewrite (IH a b); [|by case: Ha|by case: Hb]. by apply: eq_bigr => k _.
Qed.

Lemma square_row_length (L : list (list R)) i : Square L -> (i < List.length L)%coq_nat ->
  List.length (List.nth i L Datatypes.nil) = List.length L.
Proof.
  move=> Hsq Hi. move: Hsq; rewrite /Square => /List.Forall_forall; apply. exact: List.nth_In.
Qed.

Lemma to_mx_gram (L : list (list R)) : Square L ->
  to_mx (List.length L) (gram NumR L) = to_mx (List.length L) L *m (to_mx (List.length L) L)^T.
Proof.
  move=> Hsq. apply/matrixP => i j. rewrite !mxE.
  have Hi : (i < List.length L)%coq_nat by apply/ltP.
  have Hj : (j < List.length L)%coq_nat by apply/ltP.
  rewrite /gram.
  rewrite (@map_nth_lt _ _ (fun ri => List.map (fun rj => dot NumR ri rj) L) L i Datatypes.nil Datatypes.nil Hi).
  rewrite (@map_nth_lt _ _ (fun rj => dot NumR (List.nth i L Datatypes.nil) rj) L j Datatypes.nil R0 Hj).
  rewrite (@dot_sum (List.length L)); try exact: square_row_length.
  apply: eq_bigr => k _. by rewrite !mxE.
Qed.

Lemma to_mx_trig (L : list (list R)) : LowerTri L -> is_trig_mx (to_mx (List.length L) L).
Proof.
  move=> Hlt. apply/is_trig_mxP => i j ltij. rewrite mxE.
  have Hi : (i < List.length L)%coq_nat by apply/ltP.
  case: (Hlt i Hi) => _; apply. exact/ltP.
Qed.

Lemma prod_nth (d : list R) : \prod_(i < List.length d) List.nth (nat_of_ord i) d R0 = prodR d.
Proof.
  elim: d => [|x d IH] /=; first by rewrite big_ord0.
  rewrite big_ord_recl /=. congr (_ * _). by rewrite -IH.
Qed.

Lemma to_mx_diag (L : list (list R)) :
  \prod_(i < List.length L) (to_mx (List.length L) L) i i = prodR (diag NumR L).
Proof.
  rewrite -prod_nth /diag.
  have E : List.length (diag_from NumR 0 L) = List.length L by exact: diag_from_length.
  rewrite E. apply: eq_bigr => i _. rewrite mxE.
  have Hi : (i < List.length L)%coq_nat by apply/ltP.
  by rewrite (diag_from_nth L 0 i Hi).
Qed.

(* det (L L^T) = (prod L_ii)^2 for the LIST model's lower-triangular L *)
Lemma det_gram_list (L : list (list R)) : LowerTri L -> Square L ->
  det_list (gram NumR L) = Rmult (prodR (diag NumR L)) (prodR (diag NumR L)).
Proof.
  move=> Hlt Hsq. rewrite /det_list gram_length to_mx_gram // det_mulmx det_tr.
  by rewrite (det_trig (to_mx_trig Hlt)) to_mx_diag.
Qed.

(* the negative log marginal likelihood at full strength *)
Local Close Scope ring_scope.
Lemma nlml_dense_full (L : list (list R)) (p r alpha : list R) :
  LowerTri L -> Square L ->
  List.length p = List.length L -> List.length alpha = List.length L ->
  mv NumR L p = r -> mv NumR (gram NumR L) alpha = r ->
  nlml NumR L p =
  Rmult (Rinv 2) (Rplus (Rplus (Rmult (INR (List.length L)) (ln (Rmult 2 PI))) (ln (det_list (gram NumR L))))
                        (dot NumR r alpha)).
Proof.
  move=> Hlt Hsq Hp Ha HLp HAa.
  exact: (@nlml_dense L p r alpha (det_list (gram NumR L)) Hlt Hsq Hp Ha HLp HAa (det_gram_list Hlt Hsq)).
Qed.
Local Open Scope ring_scope.
Lemma det_list_22 (a b c d : R) :
  det_list (Datatypes.cons (Datatypes.cons a (Datatypes.cons b Datatypes.nil))
           (Datatypes.cons (Datatypes.cons c (Datatypes.cons d Datatypes.nil)) Datatypes.nil)) = Rminus (Rmult a d) (Rmult b c).
Proof.
  rewrite /det_list /= (expand_det_row _ ord0) !big_ord_recl big_ord0 /cofactor !det_mx11 !mxE /=.
  rewrite /bump /= !addn0 !expr0 expr1.
  by rewrite mul1r mulN1r addr0 mulrN.
Qed.

Local Open Scope ring_scope.
(* the identity over any commutative ring (kept from the first wave) *)
Lemma det_LLT (F : comRingType) (n : nat) (L : 'M[F]_n) :
  is_trig_mx L -> \det (L *m L^T) = (\prod_i L i i) ^+ 2.
Proof. move=> Lt. by rewrite det_mulmx det_tr (det_trig Lt) expr2. Qed.
