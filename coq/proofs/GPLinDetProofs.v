(* GPLinDetProofs.v — the determinant identity behind the log-det term of the negative log
   marginal likelihood (C08), over MathComp matrices on an arbitrary commutative ring.
   It is linked to the list model of model/GPLin.v ONLY BY SHAPE (same statement about
   L L^T for a lower-triangular L); no lemma transports it to list matrices. *)
Set Warnings "-notation-overridden,-ambiguous-paths".
From mathcomp Require Import all_ssreflect all_algebra.
Import GRing.Theory.
Open Scope ring_scope.

(* is_trig_mx L : L i j = 0 whenever i < j (lower triangular) *)
Lemma det_LLT (F : comRingType) (n : nat) (L : 'M[F]_n) :
  is_trig_mx L -> \det (L *m L^T) = (\prod_i L i i) ^+ 2.
Proof. move=> Lt. by rewrite det_mulmx det_tr (det_trig Lt) expr2. Qed.
