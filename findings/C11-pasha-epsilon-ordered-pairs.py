"""C11 finding (candidate F-C11-2): HyperbandScheduler(type="pasha") depends on PYTHONHASHSEED.

PASHARungSystem._update_epsilon (syne_tune/optimizer/schedulers/hyperband_pasha.py) walks over
itertools.combinations(self.epoch_to_trials[epoch], 2) -- a SET of trial-id strings -- for every epoch between the
two top rungs and skips pairs it has already seen, but remembers them as ORDERED tuples (c1, c2).  The order of
the two members of a pair follows the set's iteration order, which differs between epochs and between hash
seeds, so whether a pair is counted once or once per epoch depends on PYTHONHASHSEED.  The 90% quantile of the
collected distances is PASHA's epsilon, which decides when the maximum resource level is raised: equal
random_seed and equal event history give different suggestions/decisions in fresh processes.

Run:  PYTHONPATH=/repo /venv/bin/python findings/C11-pasha-epsilon-ordered-pairs.py
exit 0 = identical in all processes; exit 1 = the runs differ (prints the first difference; on the unfixed
tree the epsilon values differ from about event 80 and the traces at event 546 between PYTHONHASHSEED 0 and 1).
Minimal fix: findings/C11-pasha-epsilon-ordered-pairs.diff  (c1, c2 = sorted(pair)).
"""
import json
import math
import os
import subprocess
import sys

MAX_T, N_EVENTS, MSEED = 27, 1200, 51.0


def metric(t, e):
    t = t + MSEED   # criss-crossing learning curves
    return (0.5 + 0.12 * math.sin(1.7 * t) + 0.1 * math.sin(2.3 * t + 1.3 * e)
            + 0.06 * math.sin(0.37 * t * e + MSEED) + 0.05 / e)


def child():
    import datetime
    import logging
    logging.getLogger().setLevel(logging.ERROR)
    from syne_tune.config_space import uniform, randint
    from syne_tune.optimizer.schedulers.hyperband import HyperbandScheduler
    from syne_tune.backend.trial_status import Trial
    s = HyperbandScheduler({"lr": uniform(0, 1), "width": randint(1, 1000), "epochs": MAX_T}, type="pasha",
                           searcher="random", metric="error", mode="min", resource_attr="epoch",
                           max_resource_attr="epochs", grace_period=1, reduction_factor=3, random_seed=7,
                           search_options={"debug_log": False})
    log, trials, nxt, workers, n = [], {}, {}, [None] * 4, 0
    for ev in range(N_EVENTS):
        w = ev % 4
        tid = workers[w]
        if tid is None:
            sg = s.suggest(n)
            if sg.spawn_new_trial_id:
                tid = n
                n += 1
                trials[tid] = Trial(tid, sg.config, datetime.datetime(2020, 1, 1))
                nxt[tid] = 1
                s.on_trial_add(trials[tid])
                log.append(["start", tid, sg.config["lr"], sg.config["width"]])
            else:
                tid = sg.checkpoint_trial_id
                log.append(["resume", tid])
            workers[w] = tid
        else:
            e = nxt[tid]
            res = {"epoch": e, "error": metric(tid, e)}
            d = s.on_trial_result(trials[tid], res)
            nxt[tid] = e + 1
            log.append(["result", tid, e, d])
            if e >= MAX_T:
                s.on_trial_complete(trials[tid], res)
                d = "STOP"
            elif d in ("STOP", "PAUSE"):
                s.on_trial_remove(trials[tid])
            if d != "CONTINUE":
                workers[w] = None
    print("RESULT" + json.dumps(log))


if __name__ == "__main__":
    if len(sys.argv) > 1 and sys.argv[1] == "child":
        child()
        sys.exit(0)
    logs = []
    for hs in ("0", "1", "2", "3"):
        p = subprocess.run([sys.executable, os.path.abspath(__file__), "child"], env=dict(os.environ, PYTHONHASHSEED=hs),
                           capture_output=True, text=True)
        line = [x for x in p.stdout.splitlines() if x.startswith("RESULT")]
        if not line:
            print(p.stderr[-2000:])
            sys.exit(2)
        logs.append(json.loads(line[-1][6:]))
    bad = 0
    for hs, log in zip((1, 2, 3), logs[1:]):
        if log != logs[0]:
            pos = next(i for i, (a, b) in enumerate(zip(logs[0], log)) if a != b)
            print("PYTHONHASHSEED=%d differs from 0 at event %d: %s vs %s" % (hs, pos, logs[0][pos], log[pos]))
            bad = 1
    print("%d events, %d trials started: %s" % (len(logs[0]), sum(1 for x in logs[0] if x[0] == "start"),
                                                "DIFFERENT" if bad else "identical"))
    sys.exit(bad)
