"""C17 finding demo: Tuner keeps (and mutates) the caller's metadata dict.

Tuner.__init__ -> _enrich_metadata works IN PLACE on the dict passed as `metadata=` and keeps a reference to
it.  When two tuners are CONSTRUCTED with the same dict before the first one runs (a list of experiments built
first and launched afterwards), the first tuner's metadata is overwritten by the second one's metric_names /
metric_mode; Tuner.run writes metadata.json at its start, so the first experiment's metadata.json states the
second experiment's mode, and load_experiment(first).best_config() - which takes the mode from the metadata -
returns the argmax row of a 'min' experiment, disagreeing with Tuner.best_config().

Exit 0: the loaded experiment of the first tuner reports its own mode and the optimum row. Non-zero otherwise.
Run:  PYTHONPATH=/repo /venv/bin/python findings/C17-shared-metadata-dict-demo.py
"""
import logging
import os
import sys
import tempfile
from datetime import datetime
from pathlib import Path

os.environ["SYNETUNE_FOLDER"] = tempfile.mkdtemp(prefix="c17-metadata-demo-")

from syne_tune import Tuner  # noqa: E402
from syne_tune.backend.trial_backend import TrialBackend  # noqa: E402
from syne_tune.backend.trial_status import Status, TrialResult  # noqa: E402
from syne_tune.config_space import randint  # noqa: E402
from syne_tune.experiments import load_experiment  # noqa: E402
from syne_tune.optimizer.schedulers.fifo import FIFOScheduler  # noqa: E402

logging.disable(logging.CRITICAL)


class Backend(TrialBackend):
    """every trial reports loss = x once and completes"""

    def _schedule(self, trial_id, config):
        self._trial_dict  # noqa: B018

    def _all_trial_results(self, trial_ids):
        out = []
        for t in trial_ids:
            tr = self._trial_dict[t]
            if tr.status == Status.in_progress:
                tr.metrics.append({"loss": float(tr.config["x"]), "st_worker_timestamp": float(t)})
                tr.status = Status.completed
            out.append(tr)
        return out

    def _stop_trial(self, trial_id, result):
        self._trial_dict[trial_id].status = Status.stopped

    def _pause_trial(self, trial_id, result):
        pass

    def _resume_trial(self, trial_id):
        pass

    def busy_trial_ids(self):
        return []

    def stdout(self, trial_id):
        return []

    def stderr(self, trial_id):
        return []

    def entrypoint_path(self):
        return Path("demo_script.py")

    def copy_checkpoint(self, src_trial_id, tgt_trial_id):
        pass

    def delete_checkpoint(self, trial_id):
        pass


def make_tuner(name, mode, metadata):
    sched = FIFOScheduler({"x": randint(0, 100)}, searcher="random", metric="loss", mode=mode, random_seed=1)
    return Tuner(trial_backend=Backend(), scheduler=sched,
                 stop_criterion=lambda status: status.num_trials_finished >= 5, n_workers=1, sleep_time=0,
                 tuner_name=name, suffix_tuner_name=False, save_tuner=False, metadata=metadata)


shared = {"benchmark": "demo"}
first = make_tuner("c17-md-min", "min", shared)
second = make_tuner("c17-md-max", "max", shared)  # constructed before the first one runs
first.run()
exp = load_experiment("c17-md-min", download_if_not_found=False)
losses = list(exp.results["loss"])
print("mode of the first scheduler:", first.scheduler.metric_mode(), "| metadata.json says:", exp.metadata["metric_mode"])
print("best_config loss:", exp.best_config()["loss"], "| min of table:", min(losses))
ok = exp.metadata["metric_mode"] == "min" and exp.best_config()["loss"] == min(losses)
sys.exit(0 if ok else 1)
