from syne_tune.config_space import randint
from syne_tune.optimizer.schedulers.searchers import RandomSearcher

space = {"x": randint(0, 9)}
def trace(shared, other_first):
    rc = [{"x": i} for i in range(6)]
    if other_first:
        o = RandomSearcher(space, metric="m", points_to_evaluate=[], random_seed=5, restrict_configurations=rc if shared else list(rc))
        for k in range(3): o.get_config(trial_id=str(k))
    s = RandomSearcher(space, metric="m", points_to_evaluate=[], random_seed=1, restrict_configurations=rc if shared else list(rc))
    out = []
    for k in range(7):
        c = s.get_config(trial_id=str(k))
        out.append(None if c is None else c["x"])
    return out, len(rc)
a = trace(False, True); b = trace(True, True)
print(a, b)
assert a == b, "searcher depends on another searcher object that was given the same restrict_configurations list"
