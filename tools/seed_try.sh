#!/bin/bash
# tools/seed_try.sh <dir with patch.diff [demo.py]> <PROP> [tier] ["test files to run on the seeded tree"]
# Applies a seeded change to a scratch worktree of /repo HEAD, checks that the demo fails there
# (and passes on /repo), runs ./check PROP against the scratch tree, removes the worktree.
# (While builders are working in parallel we do not patch /repo itself; VERIF_REPO is equivalent.)
D="$(cd "$1" && pwd)"; P="$2"; T="${3:-quick}"
W=/tmp/seedtry-$$
git -C /repo worktree add -q --detach "$W" HEAD || exit 2
trap 'git -C /repo worktree remove --force "$W" >/dev/null 2>&1' EXIT
git -C "$W" apply "$D/patch.diff" || { echo "PATCH DOES NOT APPLY"; exit 2; }
if [ -f "$D/demo.py" ]; then
  (cd /tmp && PYTHONPATH=/repo /venv/bin/python "$D/demo.py" >/dev/null 2>&1); echo "demo on /repo: exit $? (want 0)"
  (cd /tmp && PYTHONPATH="$W" /venv/bin/python "$D/demo.py" >/dev/null 2>&1); echo "demo on seeded: exit $? (want != 0)"
fi
if [ -n "$4" ]; then
  (cd "$W" && /venv/bin/python -m pytest -q -p no:cacheprovider $4 2>&1 | tail -1 | sed 's/^/tests on seeded: /')
fi
cd /verif
VERIF_REPO="$W" ./check "$P" --tier "$T" 2>&1 | grep -E "VIOLATION|KNOWN-FINDING|^$P:" | head -5
echo "check exit: ${PIPESTATUS[0]}"

