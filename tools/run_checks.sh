#!/bin/bash
# tools/run_checks.sh "<seeds>" C01 C02 ...   — runs quick checks sequentially, one summary line each
SEEDS="$1"; shift
for p in "$@"; do for s in $SEEDS; do
  out=$(VERIF_SEED=$s ./check $p 2>&1); rc=$?
  echo "seed=$s rc=$rc $(echo "$out" | grep -E "^$p:" | tail -1) $(echo "$out" | grep -c '^VIOLATION') viol-lines $(echo "$out" | grep -c '^KNOWN-FINDING') known-lines"
done; done
