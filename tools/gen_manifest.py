#!/usr/bin/env python3
"""Assemble /verif/MANIFEST.json from manifest.d/*.json fragments."""
import json, os, glob
V = os.path.dirname(os.path.dirname(os.path.abspath(__file__)))
props = [json.loads(l)["id"] for l in open(os.path.join(V, "properties.jsonl"))]
base = json.load(open(os.path.join(V, "manifest.d", "_base.json")))
checks, claimed = [], set()
for pid in props:
    f = os.path.join(V, "manifest.d", pid + ".json")
    if not os.path.exists(f):
        continue
    fr = json.load(open(f))
    if fr.get("disabled"):
        continue
    claimed.add(pid)
    checks.append({
        "property_id": pid,
        "quick_cmd": "./check %s --tier quick" % pid,
        "thorough_cmd": "./check %s --tier thorough" % pid,
        "evidence_file": "/verif/evidence/%s.json" % pid,
        "replay_cmd_template": "./check %s --replay {path}" % pid,
        "engine": "coq-model+correspondence",
        "level_claimed": fr["level_claimed"],
        "level_note": fr["level_note"],
        "technique": fr["technique"],
    })
base["checks"] = checks
na = {e["property_id"]: e for e in base.get("not_applicable_reasons", [])}
base.pop("not_applicable_reasons", None)
base["not_applicable"] = [
    {"property_id": p, "reason": na.get(p, {}).get("reason", "not yet built in this round: no check is registered for it; see DESIGN.md section 6 for the plan")}
    for p in props if p not in claimed]
json.dump(base, open(os.path.join(V, "MANIFEST.json"), "w"), indent=1)
print("claimed:", sorted(claimed))
