#!/bin/bash
# Runs the repository's pinned test suite (guard off) and compares the set of passing tests
# with /root/.vp/BASELINE.json stable_pass. Exit 0 iff every stable test still passes.
OUT=/tmp/baseline-$$.xml
cd /repo && env -u SYNE_TUNE_VERIF /venv/bin/python -m pytest -ra -q -p no:cacheprovider --timeout=900 \
  --continue-on-collection-errors --junitxml=$OUT >/tmp/baseline-$$.log 2>&1
python3 - "$OUT" <<'PY'
import json, sys, xml.etree.ElementTree as ET
b = json.load(open('/root/.vp/BASELINE.json'))
stable = set(b['stable_pass'])
passed = set()
for tc in ET.parse(sys.argv[1]).getroot().iter('testcase'):
    if not any(ch.tag in ('failure', 'error', 'skipped') for ch in tc):
        passed.add(tc.get('classname', '') + '::' + tc.get('name', ''))
def norm(s): return s.replace('/', '.').replace('.py::', '::')
ps = {norm(p) for p in passed}
missing = [s for s in stable if norm(s) not in ps]
print("stable:", len(stable), "passed now:", len(passed), "stable tests not passing:", len(missing))
for m in missing[:20]: print("  MISSING", m)
sys.exit(1 if missing else 0)
PY
rc=$?; rm -f $OUT /tmp/baseline-$$.log; exit $rc
