#!/usr/bin/env python3
"""tools/seed_tasks.py <round> <L1> <L2> — creates one scratch worktree of /repo HEAD per property under
/tmp/seed<round>-<id> and writes TASK.md there (property text + list of earlier seeded changes only; nothing
else from /verif). The seeding sub-agents are then started with: "Read /tmp/seed<round>-<id>/TASK.md ..."."""
import json, os, subprocess, glob, sys
R, L1, L2 = sys.argv[1], sys.argv[2], sys.argv[3]
only = set(sys.argv[4:])
for l in open('/verif/properties.jsonl'):
    p = json.loads(l)
    if only and p['id'] not in only:
        continue
    W = '/tmp/seed%s-%s' % (R, p['id'].lower())
    prev = []
    for f in sorted(glob.glob('/verif/seeded/%s-*/meta.json' % p['id'])):
        m = json.load(open(f)); prev.append("- " + str(m.get('what_it_breaks', ''))[:300].replace('\n', ' '))
    if not os.path.exists(W):
        subprocess.run(['git', '-C', '/repo', 'worktree', 'add', '-q', '--detach', W, 'HEAD'], check=True)
    txt = '''You are testing how robust a Python library's behaviour is against subtle regressions. You have your own scratch git worktree of the library awslabs/syne-tune at {W} (work ONLY inside that directory; never touch /repo or /verif, and do not look into /verif at all; do NOT use `git stash` — the stash is shared between worktrees; use `git diff > file` and `git checkout -- .` instead). Run code with `cd {W} && PYTHONPATH={W} /venv/bin/python ...`; tests with `cd {W} && /venv/bin/python -m pytest -q -p no:cacheprovider tst/<file>` (notes: `syne_tune.optimizer.baselines` does not import in this environment and some test files error at collection at baseline already — that is fine; what matters is that tests which pass BEFORE your change still pass AFTER it; full suite: `/venv/bin/python -m pytest -q -p no:cacheprovider --continue-on-collection-errors tst 2>&1 | tail -5` (~90 s, about 388 passed at baseline; tests with short timeouts such as gpautograd/test_cholesky_factorization or experiments/test_plotting may fail spuriously under load both before and after) — compare the SET of passing test ids before/after; never use a broad `pkill`).

Here is a semantic property the library is supposed to satisfy:

ID: {id}
TITLE: {title}
STATEMENT: {statement}
QUANTIFIER: {quant}
CODE ANCHORS: {files}
MECHANISMS: {mech}

YOUR TASK: produce TWO different, independent, realistic code changes (the kind of thing a plausible refactoring, optimisation or "small fix" by a developer could introduce), each of which BREAKS the property while the library still imports and every currently passing test still passes. Each change must need something SPECIFIC to manifest — a particular interleaving, a crash or fault at a particular point, a multi-step sequence of operations, an unusual input, or two cooperating sites that each look fine alone — NOT something ordinary use would expose at once. Several rounds of such changes were already made (listed below); find NEW mechanisms: read the anchor files (and the code they call) for parts of the property's statement and quantifier that the earlier changes did not touch — other clauses of the statement, other scheduler/searcher/backend variants named in the quantifier, non-default constructor options, boundary values, error paths, interactions between two components, helper modules the anchors call into. Keep each change small (a few lines).

Earlier rounds already produced the following changes for this property; yours must be DIFFERENT in mechanism and location (do not re-do these or close variants):
{prev}

For each change deliver, under {W}/out/{L1}/ and {W}/out/{L2}/:
  - patch.diff : `git diff` of ONLY that change against HEAD (the two patches must apply independently to a clean checkout: make change {L1}, save the diff, `git checkout -- .`, make change {L2}, save the diff, `git checkout -- .`)
  - demo.py    : a small standalone program (run as `PYTHONPATH=<checkout> /venv/bin/python demo.py`, from any cwd) that exits 0 on the unchanged code and exits non-zero (assertion failure) with the change applied, demonstrating the property violation through the library's public behaviour
  - meta.json  : {{"property": "{id}", "what_it_breaks": "...", "needs_to_manifest": "...", "tests_run": "commands you ran and their pass counts before/after"}}
Verify yourself: demo exits 0 on the clean tree and non-zero with the patch; `git apply --check` works on a clean tree; the passing test set is unchanged with each patch. Leave the worktree clean (`git checkout -- .`) with only the untracked out/ directory (and TASK.md). Your final message: one paragraph per change.
'''.format(W=W, L1=L1, L2=L2, id=p['id'], title=p['title'], statement=p['statement'], quant=p['quantifier']['text'],
           files=', '.join(p['anchors']['files']),
           mech='; '.join('%s @ %s' % (m.get('name'), m.get('where')) for m in p['anchors']['mechanism']),
           prev='\n'.join(prev) or '- (none)')
    open(W + '/TASK.md', 'w').write(txt)
print('ok')
