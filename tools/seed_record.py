#!/usr/bin/env python3
"""tools/seed_record.py <src dir with patch.diff demo.py meta.json> <ID e.g. C04-A> <result text> [caught_by text]
Copies a confirmed seeded change into /verif/seeded/<ID>/ and annotates meta.json."""
import json, os, shutil, sys
src, sid, result = sys.argv[1], sys.argv[2], sys.argv[3]
caught_by = sys.argv[4] if len(sys.argv) > 4 else ""
dst = os.path.join("/verif/seeded", sid)
os.makedirs(dst, exist_ok=True)
for f in ("patch.diff", "demo.py", "meta.json"):
    shutil.copy(os.path.join(src, f), os.path.join(dst, f))
m = json.load(open(os.path.join(dst, "meta.json")))
m["confirmed_by_lead"] = ("patch applies to a clean scratch worktree of /repo HEAD; demo exits 0 on /repo and non-zero on the "
                          "patched worktree (tools/seed_try.sh); test pass set reported unchanged by the seeding agent "
                          "(full suite, same passed ids)")
m["ran"] = "tools/seed_try.sh seeded/%s %s" % (sid, sid.split("-")[0])
m["check_result"] = result
if caught_by:
    m["caught_by"] = caught_by
json.dump(m, open(os.path.join(dst, "meta.json"), "w"), indent=1)
print("recorded", dst)
