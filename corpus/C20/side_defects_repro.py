import sys, os, logging, tempfile, traceback, random, io, contextlib
sys.path.insert(0, "/verif/harness"); sys.path.insert(0, "/verif/harness/drivers")
os.environ["SYNETUNE_FOLDER"] = tempfile.mkdtemp(prefix="c20_")
logging.disable(logging.CRITICAL)
import c20
from ckpt_backend import CkptBackend, Recorder
from syne_tune import Tuner
def go(spec):
    be = CkptBackend(random.Random(spec["seed"]), spec, spec["delete_checkpoints"])
    sch = c20.build_scheduler(spec, be)
    t = Tuner(trial_backend=be, scheduler=sch, stop_criterion=lambda st: be.polls >= spec["polls"], n_workers=spec["n_workers"],
              sleep_time=0, callbacks=[Recorder(be)], save_tuner=False, tuner_name="c20", suffix_tuner_name=False, max_failures=10**6)
    try:
        with contextlib.redirect_stdout(io.StringIO()):
            t.run()
        print("no exception")
    except Exception as e:
        tb = traceback.extract_tb(e.__traceback__)
        print(type(e).__name__, str(e)[:120], "|", " <- ".join("%s:%d" % (os.path.basename(f.filename), f.lineno) for f in tb[-3:]))
base = dict(seed=1, curve_seed=1, n_workers=3, delete_checkpoints=True, max_steps=1, polls=12, flavour="plain", mode="min",
            use_max_resource_attr=True, remove_callback=False, speculative=None, plan=None, max_t=9, rf=3, brackets=1, fail_den=None)
print("1) speculative score callback, max_num_checkpoints=2 < n_workers=3:")
go(dict(base, kind="promotion", speculative="score", max_num_checkpoints=2))
print("2) PASHA brackets=2:")
for sd in range(6):
    go(dict(base, kind="pasha", brackets=2, seed=sd, curve_seed=sd, polls=20))
print("3) sync Hyperband with failing jobs:")
for sd in range(12):
    go(dict(base, kind="sync", seed=sd, curve_seed=sd, n_workers=4, fail_den=4, polls=12, delete_checkpoints=False))
